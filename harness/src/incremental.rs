//! C19: incremental serializer histories (`clvmr::serde::Serializer`: `new(sentinel)`, `add`, `restore`,
//! `size`, `get_ref`).
//!
//! Request line
//!   `INC <id> <sentinel> <history> out=<outs>`
//!   sentinel  `none` | `pair:<marker>` | `atom:<marker>`   (marker = hex of an atom, `-` = empty)
//!             `pair`: the sentinel node is a fresh pair `(nil . nil)`; `atom`: it is `new_atom(marker)`.
//!             In every tree of the history an atom equal to the marker stands for the sentinel: the
//!             harness puts the sentinel `NodePtr` there when it builds the tree in the allocator.
//!   history   `;`-separated steps
//!             `add:<tree>`   build the tree with fresh nodes, `Serializer::add`
//!             `adds:<tree>`  the same, but every sub-tree (sentinel included) that was built before in
//!                            this request is re-used (`NodePtr` sharing across and within additions)
//!             `undo:<k>`     `restore` the state before the k-th retained addition (1-based) with the
//!                            most recently obtained `UndoState` for that position; additions k.. are dropped
//!             `undo0:<k>`    the same with the oldest still valid `UndoState` for that position
//!   outs      one per step, `;`-separated: `0:<bytes>` / `1:<bytes>` (add returned done = false / true),
//!             `u:<bytes>` (after restore), `p` (add panicked: it was called after completion), where
//!             <bytes> is the hex of `get_ref()` after the step.  They are produced by `gen` from a run of
//!             the real serializer: the model cannot predict `find_path`, it *validates* these bytes.
//! Reply
//!   `ok <r1>,<r2>,… <complete|partial>`  ri = `0:<size>` | `1:<size>` | `u:<size>` | `p`
//!   `err wrong-decode known=<tag>`  the completed output does not decode to the assembled tree.  The
//!                           Lean side runs a *faithful* model of `TreeCache` + `Serializer` and answers
//!                           the same only if it computes exactly the recorded bytes; `<tag>` names the
//!                           shape of the history (`shape_tag`, the same rule on both sides, from the
//!                           request alone).  `./check` (key `reply_failures`) reports an *agreed* wrong
//!                           decode under the known finding `<tag>`; a wrong decode the model does not
//!                           reproduce, or one without a known shape, is a new violation.
//!   (model only) `err model-differs step=<i> model=<…>`  the recorded step is not what the model computes
//!   `err nondeterministic`  re-running the history (new salt) gave other bytes than the recorded ones
//!   `panic`                 a panic anywhere but in an `add` after completion
use crate::rng::Rng;
use crate::trees::{self, T};
use crate::util::*;
use clvmr::allocator::{Allocator, NodePtr};
use clvmr::serde::{node_from_bytes_backrefs, node_from_bytes_backrefs_old, node_to_bytes_backrefs, Serializer, UndoState};
use std::collections::HashMap;
use std::panic::{catch_unwind, AssertUnwindSafe};

#[derive(Clone, Debug, PartialEq)]
pub enum Sent {
    None,
    Pair(Vec<u8>),
    Atom(Vec<u8>),
}

impl Sent {
    pub fn marker(&self) -> Option<&Vec<u8>> {
        match self {
            Sent::None => None,
            Sent::Pair(m) | Sent::Atom(m) => Some(m),
        }
    }
    fn fmt(&self) -> String {
        match self {
            Sent::None => "none".into(),
            Sent::Pair(m) => format!("pair:{}", hex_or_dash(m)),
            Sent::Atom(m) => format!("atom:{}", hex_or_dash(m)),
        }
    }
    fn parse(s: &str) -> Option<Sent> {
        if s == "none" {
            return Some(Sent::None);
        }
        let (k, m) = s.split_once(':')?;
        let m = parse_hex(m)?;
        match k {
            "pair" => Some(Sent::Pair(m)),
            "atom" => Some(Sent::Atom(m)),
            _ => None,
        }
    }
}

#[derive(Clone, Debug, PartialEq)]
pub enum Step {
    Add { shared: bool, tree: T },
    Undo { k: usize, oldest: bool },
}

impl Step {
    fn fmt(&self) -> String {
        match self {
            Step::Add { shared: false, tree } => format!("add:{}", trees::to_hex(tree)),
            Step::Add { shared: true, tree } => format!("adds:{}", trees::to_hex(tree)),
            Step::Undo { k, oldest: false } => format!("undo:{}", k),
            Step::Undo { k, oldest: true } => format!("undo0:{}", k),
        }
    }
    fn parse(s: &str) -> Option<Step> {
        let (k, v) = s.split_once(':')?;
        match k {
            "add" => Some(Step::Add { shared: false, tree: trees::from_hex(v)? }),
            "adds" => Some(Step::Add { shared: true, tree: trees::from_hex(v)? }),
            "undo" => Some(Step::Undo { k: v.parse().ok()?, oldest: false }),
            "undo0" => Some(Step::Undo { k: v.parse().ok()?, oldest: true }),
            _ => None,
        }
    }
}

#[derive(Clone, Debug, PartialEq)]
pub enum StepOut {
    Add(bool, Vec<u8>),
    Undo(Vec<u8>),
    Panic,
}

impl StepOut {
    fn fmt_full(&self) -> String {
        match self {
            StepOut::Add(d, b) => format!("{}:{}", *d as u8, hex_or_dash(b)),
            StepOut::Undo(b) => format!("u:{}", hex_or_dash(b)),
            StepOut::Panic => "p".into(),
        }
    }
    fn fmt_size(&self) -> String {
        match self {
            StepOut::Add(d, b) => format!("{}:{}", *d as u8, b.len()),
            StepOut::Undo(b) => format!("u:{}", b.len()),
            StepOut::Panic => "p".into(),
        }
    }
    fn parse(s: &str) -> Option<StepOut> {
        if s == "p" {
            return Some(StepOut::Panic);
        }
        let (k, v) = s.split_once(':')?;
        let b = parse_hex(v)?;
        match k {
            "0" => Some(StepOut::Add(false, b)),
            "1" => Some(StepOut::Add(true, b)),
            "u" => Some(StepOut::Undo(b)),
            _ => None,
        }
    }
}

// ------------------------------------------------------------------ trees with holes (specification side)

pub fn holes(t: &T, marker: Option<&Vec<u8>>) -> usize {
    let Some(m) = marker else { return 0 };
    let mut n = 0;
    let mut st = vec![t];
    while let Some(t) = st.pop() {
        match t {
            T::Atom(b) => n += (b == m) as usize,
            T::Pair(l, r) => {
                st.push(l);
                st.push(r);
            }
        }
    }
    n
}

/// replace the leftmost hole of `t` by `x` (`None`: no hole)
pub fn subst_first(t: &T, m: &Vec<u8>, x: &T) -> Option<T> {
    // iterative: the path to the leftmost hole, then rebuild
    fn go(t: &T, m: &Vec<u8>, x: &T, depth: usize) -> Option<T> {
        match t {
            T::Atom(b) => (b == m).then(|| x.clone()),
            T::Pair(l, r) => {
                if depth > 20000 {
                    return None;
                }
                if let Some(l2) = go(l, m, x, depth + 1) {
                    return Some(T::pair(l2, (**r).clone()));
                }
                go(r, m, x, depth + 1).map(|r2| T::pair((**l).clone(), r2))
            }
        }
    }
    go(t, m, x, 0)
}

/// the tree assembled from the retained additions: every later addition is put at the leftmost
/// remaining sentinel
pub fn assemble(ts: &[T], marker: Option<&Vec<u8>>) -> Option<T> {
    let mut it = ts.iter();
    let mut cur = it.next()?.clone();
    for x in it {
        cur = subst_first(&cur, marker?, x)?;
    }
    Some(cur)
}

/// number of nodes of the tree below `n` with shared sub-trees counted every time, saturating: a wrong
/// back-reference can make the decoded DAG exponentially large when expanded
fn expanded_nodes(a: &Allocator, n: NodePtr) -> u64 {
    use clvmr::allocator::SExp;
    let mut memo: HashMap<NodePtr, u64> = HashMap::new();
    let mut st = vec![(n, false)];
    while let Some((x, done)) = st.pop() {
        if memo.contains_key(&x) {
            continue;
        }
        match a.sexp(x) {
            SExp::Atom => {
                memo.insert(x, 1);
            }
            SExp::Pair(l, r) => {
                if done {
                    let v = 1u64.saturating_add(memo[&l]).saturating_add(memo[&r]);
                    memo.insert(x, v);
                } else {
                    st.push((x, true));
                    st.push((l, false));
                    st.push((r, false));
                }
            }
        }
    }
    memo[&n]
}

/// does the decoded node equal the tree `want`?  (`Err(size)`: it has another number of nodes)
fn same_tree(a: &Allocator, n: NodePtr, want: &T) -> Result<bool, u64> {
    let sz = expanded_nodes(a, n);
    if sz != want.nodes() as u64 {
        return Err(sz);
    }
    Ok(trees::from_node(a, n) == *want)
}

// ------------------------------------------------------------------ executing a history on the real serializer

pub struct Exec {
    pub a: Allocator,
    sentinel: Option<NodePtr>,
    sent: Sent,
    memo: HashMap<T, NodePtr>,
    pub ser: Serializer,
    /// undos[i] = the still valid `UndoState`s describing "before the (i+1)-th retained addition"
    undos: Vec<Vec<UndoState>>,
    pub trees: Vec<T>,
    /// `shared` flag of each retained addition
    pub flags: Vec<bool>,
    pub done: bool,
}

impl Exec {
    pub fn new(sent: &Sent, junk: usize) -> Exec {
        let mut a = Allocator::new();
        for i in 0..junk {
            // shift the NodePtr numbering (heap atoms and pairs)
            let x = a.new_atom(&[0xaa, 0xbb, 0xcc, 0xdd, i as u8]).unwrap();
            let _ = a.new_pair(x, x).unwrap();
        }
        let sentinel = match sent {
            Sent::None => None,
            Sent::Pair(_) => Some(a.new_pair(NodePtr::NIL, NodePtr::NIL).unwrap()),
            Sent::Atom(m) => Some(a.new_atom(m).unwrap()),
        };
        Exec { a, sentinel, sent: sent.clone(), memo: HashMap::new(), ser: Serializer::new(sentinel), undos: vec![], trees: vec![], flags: vec![], done: false }
    }

    fn build(&mut self, t: &T, shared: bool) -> NodePtr {
        if let (Some(m), T::Atom(b)) = (self.sent.marker(), t) {
            if b == m {
                return self.sentinel.unwrap();
            }
        }
        if shared {
            if let Some(n) = self.memo.get(t) {
                return *n;
            }
        }
        let n = match t {
            T::Atom(b) => self.a.new_atom(b).unwrap(),
            T::Pair(l, r) => {
                let l = self.build(l, shared);
                let r = self.build(r, shared);
                self.a.new_pair(l, r).unwrap()
            }
        };
        if shared {
            self.memo.insert(t.clone(), n);
        }
        n
    }

    /// `Err(())`: a panic at an unexpected place (the serializer may be in any state)
    pub fn step(&mut self, s: &Step) -> Result<StepOut, ()> {
        match s {
            Step::Add { shared, tree } => {
                let node = self.build(tree, *shared);
                let was_done = self.done;
                let (ser, a) = (&mut self.ser, &self.a);
                match catch_unwind(AssertUnwindSafe(|| ser.add(a, node))) {
                    Err(_) => {
                        if was_done {
                            Ok(StepOut::Panic)
                        } else {
                            Err(())
                        }
                    }
                    Ok(Err(_)) => Err(()), // write_atom fails only for atoms of 2^34 bytes
                    Ok(Ok((done, undo))) => {
                        let i = self.trees.len();
                        if self.undos.len() == i {
                            self.undos.push(vec![]);
                        }
                        self.undos[i].push(undo);
                        self.trees.push(tree.clone());
                        self.flags.push(*shared);
                        self.done = done;
                        Ok(StepOut::Add(done, self.ser.get_ref().clone()))
                    }
                }
            }
            Step::Undo { k, oldest } => {
                let idx = *k - 1;
                let st = if *oldest { self.undos[idx].first() } else { self.undos[idx].last() }.unwrap().clone();
                let ser = &mut self.ser;
                if catch_unwind(AssertUnwindSafe(|| ser.restore(st))).is_err() {
                    return Err(());
                }
                self.trees.truncate(idx);
                self.flags.truncate(idx);
                self.undos.truncate(idx + 1);
                self.done = false;
                Ok(StepOut::Undo(self.ser.get_ref().clone()))
            }
        }
    }

    pub fn fill_atom(&self) -> T {
        T::Atom(if self.sent.marker() == Some(&vec![1u8]) { vec![2] } else { vec![1] })
    }
}

/// are the undo indices of a history meaningful?  (`undo:k` needs an `UndoState` for position k);
/// `dones[i]`: the recorded verdicts, needed because an `add` after completion is not retained
fn indices_ok(steps: &[Step], outs: &[StepOut]) -> bool {
    let (mut n, mut avail) = (0usize, 0usize);
    for (s, o) in steps.iter().zip(outs) {
        match (s, o) {
            (Step::Add { .. }, StepOut::Add(..)) => {
                n += 1;
                avail = n;
            }
            (Step::Add { .. }, StepOut::Panic) => {}
            (Step::Undo { k, .. }, StepOut::Undo(_)) => {
                if *k < 1 || *k > avail {
                    return false;
                }
                n = *k - 1;
                avail = *k;
            }
            _ => return false,
        }
    }
    true
}

pub fn run(args: &[&str]) -> String {
    if args.len() != 3 || !args[2].starts_with("out=") {
        return "bad-request".into();
    }
    let Some(sent) = Sent::parse(args[0]) else { return "bad-request".into() };
    let steps: Option<Vec<Step>> = args[1].split(';').map(Step::parse).collect();
    let outs: Option<Vec<StepOut>> = args[2][4..].split(';').map(StepOut::parse).collect();
    let (Some(steps), Some(outs)) = (steps, outs) else { return "bad-request".into() };
    if steps.len() != outs.len() || !indices_ok(&steps, &outs) {
        return "bad-request".into();
    }
    let mut ex = Exec::new(&sent, 0);
    let mut got = vec![];
    for s in &steps {
        match ex.step(s) {
            Ok(o) => got.push(o),
            Err(()) => return "panic".into(),
        }
    }
    if got != outs {
        return "err nondeterministic".into();
    }
    // a partial history is only re-run (the generator never emits one: what a later completion would
    // write cannot be judged from the recorded steps); a complete one is decoded
    let complete = ex.done;
    if !complete {
        return format!("ok {} partial", got.iter().map(|o| o.fmt_size()).collect::<Vec<_>>().join(","));
    }
    let wrong = format!("err wrong-decode known={}", shape_tag(&sent, &steps));
    let Some(want) = assemble(&ex.trees, sent.marker()) else { return wrong };
    let mut a2 = Allocator::new();
    let bytes = ex.ser.get_ref().clone();
    match catch_unwind(AssertUnwindSafe(|| node_from_bytes_backrefs(&mut a2, &bytes))) {
        Ok(Ok(n)) if same_tree(&a2, n, &want) == Ok(true) => {}
        Ok(_) => return wrong,
        Err(_) => return "panic".into(),
    }
    format!("ok {} complete", got.iter().map(|o| o.fmt_size()).collect::<Vec<_>>().join(","))
}

/// The shape of a history, from the request alone (the Lean side computes the same, `Proto/Incremental.lean`
/// `shapeTag`): L — an addition with two or more sentinels is followed by another addition; N — the same
/// pair with a sentinel below it occurs twice among the `adds` trees; M — an undo is followed by an
/// addition.  It only *names* the known finding a wrong decode is reported under; that it is known is
/// decided by the faithful model reproducing the bytes.
pub fn shape_tag(sent: &Sent, steps: &[Step]) -> &'static str {
    let m = sent.marker();
    let later_add = |i: usize| steps[i + 1..].iter().any(|s| matches!(s, Step::Add { .. }));
    if steps.iter().enumerate().any(|(i, s)| matches!(s, Step::Add { tree, .. } if holes(tree, m) >= 2) && later_add(i)) {
        return "L-incremental-multi-sentinel";
    }
    let adds: Vec<(bool, T)> = steps.iter().filter_map(|s| if let Step::Add { shared, tree } = s { Some((*shared, tree.clone())) } else { None }).collect();
    if shape_shared_dup(&adds, m) {
        return "N-incremental-shared-sentinel-node";
    }
    if steps.iter().enumerate().any(|(i, s)| matches!(s, Step::Undo { .. }) && later_add(i)) {
        return "M-incremental-undo-stale-parents";
    }
    "none"
}

// ------------------------------------------------------------------ generators

const MARKER: &[u8] = b"SENTINEL";

struct Vocab {
    atoms: Vec<Vec<u8>>,
    subs: Vec<T>,
}

fn vocab(rng: &mut Rng, marker: Option<&Vec<u8>>) -> Vocab {
    let mut atoms: Vec<Vec<u8>> = vec![];
    for _ in 0..rng.below(4) + 2 {
        let a = match rng.below(8) {
            0 => vec![],
            1 => vec![rng.below(4) as u8 + 1],
            2 => {
                let l = *rng.pick(&[40usize, 63, 64, 70]);
                rng.bytes(l)
            }
            3 => rng.bytes(3),
            _ => {
                let l = rng.below(8) as usize + 3;
                rng.bytes(l)
            }
        };
        atoms.push(a);
    }
    let mut subs: Vec<T> = vec![];
    for _ in 0..rng.below(6) + 2 {
        let pick = |rng: &mut Rng, subs: &Vec<T>| -> T {
            // a hole inside a vocabulary (hence repeated, and with `adds` NodePtr-shared) sub-tree
            if let Some(m) = marker {
                if rng.chance(1, 14) {
                    return T::Atom(m.clone());
                }
            }
            if !subs.is_empty() && rng.chance(1, 2) { rng.pick(subs).clone() } else { T::Atom(rng.pick(&atoms).clone()) }
        };
        let l = pick(rng, &subs);
        let r = pick(rng, &subs);
        if l.nodes() + r.nodes() < 40 {
            subs.push(T::pair(l, r));
        }
    }
    if subs.is_empty() {
        subs.push(T::pair(T::Atom(atoms[0].clone()), T::Atom(atoms[0].clone())));
    }
    Vocab { atoms, subs }
}

/// a random piece over the vocabulary; leaves are holes with probability `hole_num/hole_den`
fn piece(rng: &mut Rng, v: &Vocab, marker: Option<&Vec<u8>>, hole_num: u64, hole_den: u64, depth: usize) -> T {
    if let Some(m) = marker {
        if rng.chance(hole_num, hole_den) {
            return T::Atom(m.clone());
        }
    }
    if depth == 0 || rng.chance(2, 5) {
        return if rng.chance(1, 2) { rng.pick(&v.subs).clone() } else { T::Atom(rng.pick(&v.atoms).clone()) };
    }
    let l = piece(rng, v, marker, hole_num, hole_den, depth - 1);
    let r = piece(rng, v, marker, hole_num, hole_den, depth - 1);
    T::pair(l, r)
}

/// remove all holes (vocabulary sub-trees may contain some)
fn plug(t: &T, m: Option<&Vec<u8>>, with: &T) -> T {
    match t {
        T::Atom(b) => {
            if Some(b) == m { with.clone() } else { t.clone() }
        }
        T::Pair(l, r) => T::pair(plug(l, m, with), plug(r, m, with)),
    }
}

/// keep the leftmost hole only (put one in front if there is none)
fn one_hole(t: &T, mk: &Vec<u8>, with: &T) -> T {
    fn go(t: &T, mk: &Vec<u8>, with: &T, seen: &mut bool) -> T {
        match t {
            T::Atom(b) => {
                if b == mk {
                    if *seen {
                        return with.clone();
                    }
                    *seen = true;
                }
                t.clone()
            }
            T::Pair(l, r) => {
                let l2 = go(l, mk, with, seen);
                let r2 = go(r, mk, with, seen);
                T::pair(l2, r2)
            }
        }
    }
    let mut seen = false;
    let r = go(t, mk, with, &mut seen);
    if seen { r } else { T::pair(T::Atom(mk.clone()), r) }
}

/// cut a target tree into pieces: `k` disjoint sub-trees are replaced by holes, the removed sub-trees
/// follow in pre-order (each cut again recursively) — the order in which `add` asks for them
fn split(rng: &mut Rng, t: &T, m: &Vec<u8>, budget: &mut usize, out: &mut Vec<T>) {
    fn cut(rng: &mut Rng, t: &T, m: &Vec<u8>, budget: &mut usize, removed: &mut Vec<T>, p_num: u64, root: bool) -> T {
        if *budget > 0 && !root && rng.chance(p_num, 10) {
            *budget -= 1;
            removed.push(t.clone());
            return T::Atom(m.clone());
        }
        match t {
            T::Atom(_) => t.clone(),
            T::Pair(l, r) => {
                let l2 = cut(rng, l, m, budget, removed, p_num, false);
                let r2 = cut(rng, r, m, budget, removed, p_num, false);
                T::pair(l2, r2)
            }
        }
    }
    let mut removed = vec![];
    // whole tree = sentinel once in a while
    let p = if rng.chance(1, 12) && *budget > 0 {
        *budget -= 1;
        removed.push(t.clone());
        T::Atom(m.clone())
    } else {
        let p_num = rng.below(3) + 1;
        cut(rng, t, m, budget, &mut removed, p_num, true)
    };
    out.push(p);
    for r in removed {
        split(rng, &r, m, budget, out);
    }
}

pub fn random_sent(rng: &mut Rng) -> Sent {
    match rng.below(20) {
        0 | 1 => Sent::None,
        2 => Sent::Atom(MARKER.to_vec()),
        3 => Sent::Atom(vec![5]),
        4 => Sent::Atom(rng.bytes(3)),
        5 => Sent::Atom(vec![]),
        _ => Sent::Pair(MARKER.to_vec()),
    }
}

/// a random history and the outputs of the real serializer for it.  `Err`: the serializer panicked
/// where it must not (the steps so far are returned)
pub fn random_history(rng: &mut Rng, big: bool, always_complete: bool) -> (Sent, Vec<Step>, Vec<StepOut>, bool) {
    let sent = random_sent(rng);
    let marker = sent.marker().cloned();
    let m = marker.as_ref();
    let v = vocab(rng, m);
    let max_steps = if big { 30 } else { rng.below(12) as usize + 2 };
    let style = rng.below(10);
    let share_mode = rng.below(3); // 0: fresh nodes, 1: shared, 2: mixed
    let undo_num = *rng.pick(&[0u64, 0, 1, 2, 4]);
    // the plan: pieces to add next
    let mut plan: std::collections::VecDeque<T> = Default::default();
    match (style, m) {
        (0..=2, Some(mk)) => {
            // list building, as in the crate's tests: (item . hole) …, then a terminator
            let items: Vec<T> = (0..rng.below(3) + 1).map(|_| piece(rng, &v, None, 0, 1, 2)).collect();
            for _ in 0..rng.below(max_steps as u64) + 1 {
                plan.push_back(T::pair(rng.pick(&items).clone(), T::Atom(mk.clone())));
            }
            plan.push_back(if rng.chance(1, 2) { T::nil() } else { rng.pick(&items).clone() });
        }
        (3..=5, Some(mk)) => {
            // a repetition-heavy target tree cut at random places
            let target = plug(&crate::backref::repetitive_tree(rng, if big { 200 } else { 40 }), m, &T::nil());
            let mut budget = rng.below(max_steps as u64) as usize;
            let mut out = vec![];
            split(rng, &target, mk, &mut budget, &mut out);
            plan.extend(out);
        }
        _ => {}
    }
    let mut ex = Exec::new(&sent, 0);
    let mut steps = vec![];
    let mut outs = vec![];
    let mut ok = true;
    let hole_num = rng.below(3) + 1;
    // scripted opening "an addition stops at its sentinel, is undone, and something else is added there":
    // single-sentinel pieces over one vocabulary of long atoms, so that content of the undone and of the new
    // addition is referenced again by what is still pending (the restore path of `UndoState` / `TreeCache`)
    let mut scripted = false;
    if let (7, Some(mk)) = (style, m) {
        scripted = true;
        let filler = T::Atom(rng.pick(&v.atoms).clone());
        let shared = share_mode == 1;
        let mut script: Vec<Step> = vec![];
        let t1 = one_hole(&piece(rng, &v, m, 2, 8, 3), mk, &filler);
        // the first addition continues after its sentinel with vocabulary content
        script.push(Step::Add { shared, tree: T::pair(t1, piece(rng, &v, None, 0, 1, 2)) });
        for _ in 0..rng.below(3) + 1 {
            let k = script.iter().filter(|s| matches!(s, Step::Add { .. })).count() + 1;
            script.push(Step::Add { shared, tree: one_hole(&piece(rng, &v, m, 2, 8, 2), mk, &filler) });
            script.push(Step::Undo { k, oldest: rng.chance(1, 3) });
            if rng.chance(1, 2) {
                script.push(Step::Add { shared, tree: plug(&piece(rng, &v, None, 0, 1, 2), m, &filler) });
                break;
            }
            script.push(Step::Add { shared, tree: one_hole(&piece(rng, &v, m, 1, 8, 2), mk, &filler) });
        }
        for s in script {
            if ex.done {
                break;
            }
            if let Step::Undo { k, .. } = &s {
                if *k > ex.undos.len() {
                    continue;
                }
            }
            match ex.step(&s) {
                Ok(o) => {
                    steps.push(s);
                    outs.push(o);
                }
                Err(()) => {
                    steps.push(s);
                    ok = false;
                    break;
                }
            }
        }
    }
    while !scripted && steps.len() < max_steps {
        let n = ex.trees.len();
        let can_undo = ex.undos.len();
        let s = if can_undo > 0 && rng.chance(undo_num, 10) {
            let k = rng.below(can_undo as u64) as usize + 1;
            // continuation: replay the dropped additions, or something else
            if rng.chance(1, 2) {
                for t in ex.trees[(k - 1).min(n)..].iter().rev() {
                    plan.push_front(t.clone());
                }
            } else if rng.chance(1, 2) {
                plan.clear();
            }
            Step::Undo { k, oldest: rng.chance(1, 3) }
        } else {
            if ex.done && !rng.chance(1, 6) {
                if undo_num > 0 && rng.chance(1, 2) {
                    continue_or_break(&mut plan);
                    let k = rng.below(can_undo as u64) as usize + 1;
                    Step::Undo { k, oldest: rng.chance(1, 3) }
                } else {
                    break;
                }
            } else {
                let tree = plan.pop_front().unwrap_or_else(|| {
                    let outstanding = assemble(&ex.trees, m).map(|t| holes(&t, m)).unwrap_or(1);
                    let hn = if outstanding > 2 { 0 } else { hole_num };
                    if rng.chance(1, 10) && m.is_some() { T::Atom(m.unwrap().clone()) } else { piece(rng, &v, m, hn, 8, 3) }
                });
                let shared = match share_mode {
                    0 => false,
                    1 => true,
                    _ => rng.chance(1, 2),
                };
                Step::Add { shared, tree }
            }
        };
        match ex.step(&s) {
            Ok(o) => {
                steps.push(s);
                outs.push(o);
            }
            Err(()) => {
                steps.push(s);
                ok = false;
                break;
            }
        }
    }
    // complete most histories with hole-free pieces
    if ok && !ex.done && (!rng.chance(1, 8) || always_complete) {
        let mut guard = 0;
        let fill = ex.fill_atom();
        while !ex.done && guard < 60 {
            guard += 1;
            let t = if guard > 30 { fill.clone() } else { plug(&piece(rng, &v, None, 0, 1, 2), m, &fill) };
            let s = Step::Add { shared: share_mode == 1, tree: t };
            match ex.step(&s) {
                Ok(o) => {
                    steps.push(s);
                    outs.push(o);
                }
                Err(()) => {
                    steps.push(s);
                    ok = false;
                    break;
                }
            }
        }
    }
    (sent, steps, outs, ok)
}

/// is the serializer in the completed state after the last step?
fn ends_complete(steps: &[Step], outs: &[StepOut]) -> bool {
    let mut done = false;
    for (s, o) in steps.iter().zip(outs) {
        match (s, o) {
            (_, StepOut::Add(d, _)) => done = *d,
            (_, StepOut::Undo(_)) => done = false,
            _ => {}
        }
    }
    done
}

fn continue_or_break(plan: &mut std::collections::VecDeque<T>) {
    plan.clear();
}

fn line(id: &str, sent: &Sent, steps: &[Step], outs: &[StepOut]) -> String {
    format!(
        "INC {} {} {} out={}",
        id,
        sent.fmt(),
        steps.iter().map(|s| s.fmt()).collect::<Vec<_>>().join(";"),
        outs.iter().map(|o| o.fmt_full()).collect::<Vec<_>>().join(";")
    )
}

/// record the real serializer's outputs for a fixed history
fn record(sent: &Sent, steps: &[Step]) -> Option<Vec<StepOut>> {
    let mut ex = Exec::new(sent, 0);
    let mut outs = vec![];
    for s in steps {
        if let Step::Undo { k, .. } = s {
            if *k < 1 || *k > ex.undos.len() {
                return None;
            }
        }
        outs.push(ex.step(s).ok()?);
    }
    Some(outs)
}

fn h(s: &str) -> T {
    trees::from_hex(s).unwrap()
}

/// fixed histories: the crate's four unit tests, sentinel edge cases
pub fn corpus() -> Vec<(Sent, Vec<Step>)> {
    let mk = MARKER.to_vec();
    let hole = T::Atom(mk.clone());
    let sp = Sent::Pair(mk.clone());
    let add = |t: T| Step::Add { shared: false, tree: t };
    let adds = |t: T| Step::Add { shared: true, tree: t };
    let undo = |k: usize| Step::Undo { k, oldest: false };
    let item = h("ffff0102ff0304");
    let list = T::pair(item.clone(), hole.clone());
    let mut c = vec![];
    // test_simple_incremental
    let mut s: Vec<Step> = (0..10).map(|_| adds(list.clone())).collect();
    s.push(add(T::nil()));
    c.push((sp.clone(), s));
    // test_incremental
    let foobar = T::pair(T::pair(T::Atom(vec![1]), hole.clone()), T::pair(T::Atom(vec![3]), T::Atom(b"foobar".to_vec())));
    let barfoo = T::pair(T::pair(T::Atom(vec![1]), hole.clone()), T::pair(T::Atom(vec![3]), T::Atom(b"barfoo".to_vec())));
    let mut s = vec![add(foobar)];
    s.extend((0..10).map(|_| adds(barfoo.clone())));
    s.push(add(T::nil()));
    c.push((sp.clone(), s));
    // test_restore
    c.push((
        sp.clone(),
        vec![adds(list.clone()), add(T::nil()), Step::Undo { k: 2, oldest: true }, adds(item.clone()), Step::Undo { k: 2, oldest: true }, add(T::Atom(vec![0x05, 0x39]))],
    ));
    // test_incremental_restore
    let i1 = T::pair(h("ffff8600000000000086111111111111ff8622222222222286333333333333"), hole.clone());
    let i2 = T::pair(h("ffff8611111111111186000000000000ff8622222222222286333333333333"), hole.clone());
    let i3 = T::pair(h("ffff8600000000000086111111111111ff8633333333333386222222222222"), hole.clone());
    c.push((sp.clone(), vec![add(i1), add(i2.clone()), add(i3.clone()), undo(2), add(i3), add(i2), add(T::nil())]));
    // sentinel is the whole tree (repeatedly), then a tree
    c.push((sp.clone(), vec![add(hole.clone()), add(hole.clone()), add(item.clone())]));
    // no sentinel; add after completion panics; undo and add again
    c.push((Sent::None, vec![add(item.clone()), add(item.clone()), undo(1), add(T::pair(item.clone(), item.clone()))]));
    // repeated sentinels in one addition
    let x = T::Atom(b"xxxxxx".to_vec());
    let y = T::Atom(b"yyyyyy".to_vec());
    c.push((sp.clone(), vec![add(T::pair(hole.clone(), T::pair(hole.clone(), hole.clone()))), add(x.clone()), add(y.clone()), add(x.clone())]));
    c.push((sp.clone(), vec![add(T::pair(T::pair(hole.clone(), hole.clone()), hole.clone())), add(x.clone()), add(y.clone()), add(T::pair(x.clone(), y.clone()))]));
    // the same NodePtr (containing the sentinel) twice in one tree: (p . (p . X)), p = (A . hole)
    let a = T::Atom(b"aaaaaa".to_vec());
    let p = T::pair(a.clone(), hole.clone());
    c.push((sp.clone(), vec![adds(T::pair(p.clone(), T::pair(p.clone(), x.clone()))), adds(x.clone()), adds(y.clone())]));
    c.push((sp.clone(), vec![add(T::pair(p.clone(), T::pair(p.clone(), x.clone()))), add(x.clone()), add(y.clone())]));
    // undo, then a different continuation, then a reference to the undone content:
    // (X . (B . ((A . hole) . X))), add X, undo, add Y
    let b = T::Atom(b"bbbbbb".to_vec());
    let t1 = T::pair(x.clone(), T::pair(b.clone(), T::pair(T::pair(a.clone(), hole.clone()), x.clone())));
    c.push((sp.clone(), vec![add(t1.clone()), add(x.clone()), undo(2), add(y.clone())]));
    c.push((sp.clone(), vec![adds(t1.clone()), adds(x.clone()), undo(2), adds(y.clone())]));
    // a node with the sentinel below it, built once and used in two additions (finding N)
    let a4 = T::Atom(vec![0x20, 0x13, 0xd4]);
    let b4 = T::Atom(vec![0xd9, 0x31, 0xac]);
    let q = T::pair(hole.clone(), a4.clone());
    c.push((
        sp.clone(),
        vec![adds(q.clone()), adds(hole.clone()), adds(T::pair(T::pair(a4.clone(), q.clone()), T::pair(b4.clone(), T::pair(T::Atom(vec![3]), b4.clone())))), adds(b4.clone())],
    ));
    // sentinel kinds
    c.push((Sent::Atom(vec![5]), vec![add(T::pair(T::Atom(vec![5]), T::Atom(vec![5]))), add(x.clone()), add(x.clone())]));
    c.push((Sent::Atom(vec![]), vec![add(T::pair(x.clone(), T::nil())), add(T::pair(x.clone(), T::Atom(vec![1])))]));
    c
}

pub fn generate(rng: &mut Rng, n: usize, tier: &str) -> Vec<String> {
    let mut out = vec![];
    for (i, (sent, steps)) in corpus().iter().enumerate() {
        if let Some(outs) = record(sent, steps) {
            out.push(line(&format!("c{}", i), sent, steps, &outs));
        }
    }
    let mut i = 0;
    while out.len() < n {
        i += 1;
        let big = tier == "thorough" && i % 9 == 0;
        let (sent, steps, outs, ok) = random_history(rng, big, true);
        if !ok {
            // a panic in the real serializer: the line ends with the step that panicked, recorded as `p`;
            // the model does not panic there, so the stream reports it
            let mut outs = outs;
            outs.push(StepOut::Panic);
            out.push(line(&format!("x{}", i), &sent, &steps, &outs));
            continue;
        }
        // only completed histories (an `add` after completion may follow the completing one)
        if steps.is_empty() || !outs.iter().any(|o| matches!(o, StepOut::Add(true, _))) || !ends_complete(&steps, &outs) {
            continue;
        }
        out.push(line(&format!("i{}", i), &sent, &steps, &outs));
    }
    out
}

// ------------------------------------------------------------------ oracle (implementation alone)

fn short(b: &[u8]) -> String {
    let s = hex::encode(b);
    if s.len() > 1600 { format!("{}…({} bytes)", &s[..1600], b.len()) } else { s }
}

/// the decidable description of a history that the oracle failure messages carry
fn describe(sent: &Sent, steps: &[Step]) -> String {
    format!("INC x {} {}", sent.fmt(), steps.iter().map(|s| s.fmt()).collect::<Vec<_>>().join(";"))
}

/// Shape predicates of the three known findings of C19 (KNOWN_FINDINGS.jsonl).  They are necessary
/// conditions only; a wrong decode is *attributed* to a finding by `attribute` below, which also
/// re-runs the history without the suspected ingredient.
/// L — an addition contains the sentinel more than once and another addition follows (`update()` hands
///     the parents of the *last* traversed sentinel entry to the next root, `add` continues at the
///     *first* one);
/// M — a `restore` is followed by another `add` (`restore()` does not take back the parent links, and
///     the moved sentinel parents, that the undone `update()` recorded);
/// N — a node (`NodePtr`) with the sentinel below it is used more than once (`adds` steps: the same
///     sub-tree value with a sentinel inside occurs twice): `node_map` gives both occurrences one
///     `NodeEntry` although they are completed by different additions.
fn shape_multi_followed(adds: &[(bool, T)], m: Option<&Vec<u8>>) -> bool {
    adds.iter().enumerate().any(|(i, (_, t))| i + 1 < adds.len() && holes(t, m) >= 2)
}

fn shape_shared_dup(adds: &[(bool, T)], m: Option<&Vec<u8>>) -> bool {
    let Some(mk) = m else { return false };
    // sub-trees with a sentinel inside, over all `adds` trees; returns whether `t` has a hole
    fn walk(t: &T, mk: &Vec<u8>, seen: &mut std::collections::HashSet<T>, dup: &mut bool) -> bool {
        match t {
            T::Atom(b) => b == mk,
            T::Pair(l, r) => {
                let hl = walk(l, mk, seen, dup);
                let hr = walk(r, mk, seen, dup);
                if (hl || hr) && !seen.insert(t.clone()) {
                    *dup = true;
                }
                hl || hr
            }
        }
    }
    let mut seen = std::collections::HashSet::new();
    let mut dup = false;
    for (shared, tree) in adds {
        if *shared {
            walk(tree, mk, &mut seen, &mut dup);
        }
    }
    dup
}

/// `filled`: the checker completes a partial history with further additions
fn shape_undo_then_add(steps: &[Step], filled: bool) -> bool {
    match steps.iter().position(|s| matches!(s, Step::Undo { .. })) {
        Some(i) => filled || steps[i..].iter().any(|s| matches!(s, Step::Add { .. })),
        None => false,
    }
}

/// for the distribution counters: which shape a history has (first match)
pub fn known_region(sent: &Sent, steps: &[Step], filled: bool) -> Option<&'static str> {
    let m = sent.marker();
    let adds: Vec<(bool, T)> = steps.iter().filter_map(|s| if let Step::Add { shared, tree } = s { Some((*shared, tree.clone())) } else { None }).collect();
    if shape_multi_followed(&adds, m) || (filled && adds.iter().any(|(_, t)| holes(t, m) >= 2)) {
        return Some("KNOWN-L-incremental-multi-sentinel");
    }
    if shape_shared_dup(&adds, m) {
        return Some("KNOWN-N-incremental-shared-sentinel-node");
    }
    if shape_undo_then_add(steps, filled) {
        return Some("KNOWN-M-incremental-undo-stale-parents");
    }
    None
}

/// does a fresh serializer, fed with exactly these additions (no `restore`), produce bytes that decode to
/// the assembled tree?
fn decodes_ok(sent: &Sent, adds: &[(bool, T)]) -> bool {
    let mut ex = Exec::new(sent, 0);
    for (shared, tree) in adds {
        if ex.step(&Step::Add { shared: *shared, tree: tree.clone() }).is_err() {
            return false;
        }
    }
    if !ex.done {
        return false;
    }
    let Some(want) = assemble(&ex.trees, sent.marker()) else { return false };
    let mut a2 = Allocator::new();
    let bytes = ex.ser.get_ref().clone();
    match catch_unwind(AssertUnwindSafe(|| node_from_bytes_backrefs(&mut a2, &bytes))) {
        Ok(Ok(n)) => same_tree(&a2, n, &want) == Ok(true),
        _ => false,
    }
}

/// Attribute a wrong decode to a known finding, as narrowly as the implementation alone allows:
/// `retained` = the additions the serializer finally retained (completion fills included).
///  M: the history has a restore followed by an add, and the same retained additions fed to a fresh
///     serializer *without* any restore decode correctly;
///  N: otherwise, the restore-free history shares a sentinel-containing node, and the same additions
///     built with fresh nodes decode correctly;
///  L: otherwise, the restore-free history (which fails too) has an addition with two or more sentinels
///     that is followed by another addition.  (There is no equivalent history without the repeated
///     sentinel to compare with: the API offers no other way to continue inside a tree twice.)
/// Anything else is a new violation.
pub fn attribute(sent: &Sent, steps: &[Step], filled: bool, retained: &[(bool, T)]) -> Option<&'static str> {
    let m = sent.marker();
    if shape_undo_then_add(steps, filled) && decodes_ok(sent, retained) {
        return Some("KNOWN-M-incremental-undo-stale-parents");
    }
    if shape_shared_dup(retained, m) {
        let unshared: Vec<(bool, T)> = retained.iter().map(|(_, t)| (false, t.clone())).collect();
        if decodes_ok(sent, &unshared) {
            return Some("KNOWN-N-incremental-shared-sentinel-node");
        }
    }
    if shape_multi_followed(retained, m) {
        return Some("KNOWN-L-incremental-multi-sentinel");
    }
    None
}

pub fn check_history(rep: &mut OracleReport, sent: &Sent, steps: &[Step], rng: &mut Rng) {
    let m = sent.marker();
    let d = describe(sent, steps);
    if std::env::var("VERIF_INC_TRACE").is_ok() {
        eprintln!("{}", d);
    }
    rep.evaluations += 1;
    let mut ex = Exec::new(sent, 0);
    let mut ex2 = Exec::new(sent, rng.below(7) as usize + 1);
    // the bytes held before each retained addition (index = position)
    let mut before: Vec<Vec<u8>> = vec![];
    let mut prev: Vec<u8> = vec![];
    let mut any_ref = false;
    let mut n_undo = 0;
    for (i, s) in steps.iter().enumerate() {
        let held = ex.ser.get_ref().clone();
        let o = match ex.step(s) {
            Ok(o) => o,
            Err(()) => {
                rep.fail("inc_no_panic", format!("{} panic in step {}", d, i + 1));
                return;
            }
        };
        let o2 = ex2.step(s);
        if o2.as_ref() != Ok(&o) {
            rep.fail("inc_salt_independent", format!("{} step {}: {:?} vs (other salt, other NodePtr numbering) {:?}", d, i + 1, o.fmt_full(), o2.map(|x| x.fmt_full())));
            return;
        }
        let cur = ex.ser.get_ref().clone();
        if ex.ser.size() != cur.len() as u64 {
            rep.fail("inc_size", format!("{} step {}: size()={} but get_ref().len()={}", d, i + 1, ex.ser.size(), cur.len()));
        }
        match (s, &o) {
            (Step::Add { .. }, StepOut::Add(..)) => {
                if !cur.starts_with(&prev) {
                    rep.fail("inc_append_only", format!("{} step {}: {} is not an extension of {}", d, i + 1, short(&cur), short(&prev)));
                }
                before.truncate(ex.trees.len() - 1);
                before.push(held);
            }
            (Step::Add { .. }, StepOut::Panic) => {
                rep.hit("add-after-done");
                if cur != prev {
                    rep.fail("inc_append_only", format!("{} step {}: a rejected add changed the bytes", d, i + 1));
                }
            }
            (Step::Undo { k, .. }, StepOut::Undo(b)) => {
                n_undo += 1;
                if *b != before[*k - 1] {
                    rep.fail("inc_undo_exact", format!("{} step {}: after restore {} but before addition {} the serializer held {}", d, i + 1, short(b), k, short(&before[*k - 1])));
                }
                before.truncate(*k);
            }
            _ => rep.fail("inc_no_panic", format!("{} step {}: unexpected outcome {}", d, i + 1, o.fmt_full())),
        }
        prev = cur;
    }
    rep.hit(&format!("steps<={}", steps.len().next_power_of_two()));
    rep.hit(&format!("undos={}", n_undo.min(4)));
    rep.hit(&format!("sentinel={}", sent.fmt().split(':').next().unwrap()));
    let complete = ex.done;
    rep.hit(if complete { "complete" } else { "partial" });
    let region = known_region(sent, steps, !complete);
    rep.hit(match region {
        None => "region:none",
        Some(r) if r.contains("-L-") => "region:L-multi-sentinel",
        Some(r) if r.contains("-N-") => "region:N-shared-sentinel-node",
        Some(_) => "region:M-undo-then-add",
    });
    let fill = ex.fill_atom();
    let mut guard = 0;
    while !ex.done {
        guard += 1;
        if guard > 100000 || ex.step(&Step::Add { shared: false, tree: fill.clone() }).is_err() {
            rep.fail("inc_no_panic", format!("{} panic while completing with {}", d, trees::to_hex(&fill)));
            return;
        }
    }
    let Some(want) = assemble(&ex.trees, m) else {
        rep.fail("inc_decodes", format!("{} completion reported although a sentinel is left, or addition without sentinel", d));
        return;
    };
    if holes(&want, m) != 0 {
        rep.fail("inc_decodes", format!("{} done=true although {} sentinels are unfilled", d, holes(&want, m)));
    }
    let bytes = ex.ser.get_ref().clone();
    any_ref |= bytes.contains(&0xfe);
    if any_ref {
        rep.hit("has-backref");
        rep.nontrivial += 1;
    } else if steps.len() > 1 {
        rep.nontrivial += 1;
    }
    let classic = trees::encode(&want);
    rep.hit(if bytes.len() <= classic.len() { "len<=classic" } else { "len>classic" });
    // A wrong decode is judged by the `incremental` stream, where the faithful Lean model of TreeCache has to
    // reproduce the crate's bytes before it counts as a known finding.  This oracle has no model: it only
    // counts the wrong decodes that its differential pre-filter (`attribute`) ties to the shapes L, M, N, and
    // reports the ones it cannot tie to any of them (never as KNOWN: it has no authority for that).
    let mut verdicts = vec![];
    for old in [false, true] {
        let mut a2 = Allocator::new();
        let r = catch_unwind(AssertUnwindSafe(|| if old { node_from_bytes_backrefs_old(&mut a2, &bytes) } else { node_from_bytes_backrefs(&mut a2, &bytes) }));
        match r {
            Ok(Ok(n)) => match same_tree(&a2, n, &want) {
                Ok(true) => verdicts.push("ok".to_string()),
                Ok(false) => verdicts.push(format!("decodes to {}", short(&trees::encode(&trees::from_node(&a2, n))))),
                Err(sz) => verdicts.push(format!("decodes to a tree of {} nodes", sz)),
            },
            Ok(Err(e)) => verdicts.push(format!("decode error {}", if err_kind(&e) == "PathIntoAtom" { "SerializationBackreferenceError".to_string() } else { err_kind(&e) })),
            Err(_) => {
                rep.fail("inc_no_panic", format!("{} output={} decoder panicked", d, short(&bytes)));
                return;
            }
        }
    }
    if verdicts[0] != verdicts[1] {
        rep.fail("inc_decoders_agree", format!("{} output={} current decoder: {}; legacy decoder: {}", d, short(&bytes), verdicts[0], verdicts[1]));
    }
    if verdicts[0] != "ok" {
        rep.hit("wrong-decode");
        let retained: Vec<(bool, T)> = ex.flags.iter().cloned().zip(ex.trees.iter().cloned()).collect();
        match attribute(sent, steps, !complete, &retained) {
            None => {
                rep.hit("wrong-decode:unattributed");
                rep.fail("inc_decodes", format!("{} output={} {} but the assembled tree is {} ({} nodes); no known shape (L, M, N) applies", d, short(&bytes), verdicts[0], short(&classic), want.nodes()));
            }
            Some(x) => rep.hit(&format!("wrong-decode:prefilter-{}", &x[6..7])),
        }
    }
    // informational: one-shot compression of the assembled tree (not guaranteed equal, see the crate's tests)
    if n_undo == 0 {
        let mut a3 = Allocator::new();
        let n3 = trees::build(&mut a3, &want).unwrap();
        if let Ok(b3) = node_to_bytes_backrefs(&a3, n3) {
            rep.hit(if b3 == bytes { "equals-one-shot" } else { "differs-from-one-shot" });
        }
    }
    rep.sample(format!("{} -> {}", if d.len() > 300 { &d[..300] } else { &d[..] }, short(&bytes)));
}

pub fn oracle(rng: &mut Rng, n: usize, tier: &str) -> OracleReport {
    let mut rep = OracleReport::default();
    // reproduction aid: `VERIF_INC_FILE=<file of lines "INC <id> <sentinel> <history> …">` checks exactly these
    if let Ok(f) = std::env::var("VERIF_INC_FILE") {
        for l in std::fs::read_to_string(f).unwrap().lines() {
            let toks: Vec<&str> = l.split(' ').collect();
            if toks.len() < 4 {
                continue;
            }
            let sent = Sent::parse(toks[2]).unwrap();
            let steps: Vec<Step> = toks[3].split(';').map(|s| Step::parse(s).unwrap()).collect();
            check_history(&mut rep, &sent, &steps, rng);
        }
        return rep;
    }
    for (sent, steps) in corpus() {
        check_history(&mut rep, &sent, &steps, rng);
    }
    for i in 0..n {
        let big = tier == "thorough" && i % 9 == 0;
        let (sent, steps, _outs, ok) = random_history(rng, big, false);
        if !ok {
            rep.evaluations += 1;
            rep.fail("inc_no_panic", format!("{} panic in the last step", describe(&sent, &steps)));
            continue;
        }
        if steps.is_empty() {
            continue;
        }
        check_history(&mut rep, &sent, &steps, rng);
    }
    rep
}
