//! A pass-through global allocator that records the largest single allocation request (C16: "without
//! over-allocating"). Lives in the harness only: nothing in /repo is instrumented.
use std::alloc::{GlobalAlloc, Layout, System};
use std::sync::atomic::{AtomicUsize, Ordering};

pub struct Tracking;

static MAX_REQUEST: AtomicUsize = AtomicUsize::new(0);

unsafe impl GlobalAlloc for Tracking {
    unsafe fn alloc(&self, layout: Layout) -> *mut u8 {
        MAX_REQUEST.fetch_max(layout.size(), Ordering::Relaxed);
        unsafe { System.alloc(layout) }
    }
    unsafe fn alloc_zeroed(&self, layout: Layout) -> *mut u8 {
        MAX_REQUEST.fetch_max(layout.size(), Ordering::Relaxed);
        unsafe { System.alloc_zeroed(layout) }
    }
    unsafe fn realloc(&self, ptr: *mut u8, layout: Layout, new_size: usize) -> *mut u8 {
        MAX_REQUEST.fetch_max(new_size, Ordering::Relaxed);
        unsafe { System.realloc(ptr, layout, new_size) }
    }
    unsafe fn dealloc(&self, ptr: *mut u8, layout: Layout) {
        unsafe { System.dealloc(ptr, layout) }
    }
}

#[global_allocator]
static GLOBAL: Tracking = Tracking;

/// runs `f` and returns its result with the largest single request made meanwhile (process-wide: the
/// oracles are single-threaded)
pub fn measure<T>(f: impl FnOnce() -> T) -> (T, usize) {
    MAX_REQUEST.store(0, Ordering::Relaxed);
    let r = f();
    (r, MAX_REQUEST.load(Ordering::Relaxed))
}
