//! C17 / C18: back-reference serialization (ser_br, de_br new/old, traverse_path*, the
//! back-reference-aware length probe).
use crate::rng::Rng;
use crate::trees::{self, T};
use crate::util::*;
use clvmr::allocator::{Allocator, NodePtr, SExp};
use clvmr::error::EvalErr;
use clvmr::serde::{
    is_canonical_serialization, node_from_bytes_backrefs, node_from_bytes_backrefs_old, node_to_bytes_backrefs,
    node_to_bytes_backrefs_limit, node_to_bytes_limit, serialized_length_from_bytes,
    serialized_length_from_bytes_trusted, treehash, ObjectCache,
};
use clvmr::traverse_path::{traverse_path, traverse_path_fast};
use std::collections::HashMap;

/// a decoded tree larger than this (expanded, back-references resolved) is not put on a reply line
const EXPAND_CAP: u64 = 6000;

/// number of nodes of the expanded tree below `n` (shared sub-trees counted every time), capped
fn expanded_nodes(a: &Allocator, n: NodePtr, cap: u64) -> u64 {
    let mut memo: HashMap<NodePtr, u64> = HashMap::new();
    let mut st = vec![(n, false)];
    while let Some((x, done)) = st.pop() {
        if memo.contains_key(&x) {
            continue;
        }
        match a.sexp(x) {
            SExp::Atom => {
                memo.insert(x, 1);
            }
            SExp::Pair(l, r) => {
                if done {
                    let v = (1 + memo[&l] + memo[&r]).min(cap + 1);
                    memo.insert(x, v);
                } else {
                    st.push((x, true));
                    st.push((l, false));
                    st.push((r, false));
                }
            }
        }
    }
    memo[&n]
}

/// the allocator a `DE` line asks for: `[<heap_limit|-> <ghost_pairs> <ghost_atoms>]`
fn preload(pre: &[&str]) -> Allocator {
    if pre.is_empty() {
        return Allocator::new();
    }
    let mut a = if pre[0] == "-" { Allocator::new() } else { Allocator::new_limited(pre[0].parse().unwrap()) };
    a.add_ghost_pair(pre[1].parse().unwrap()).unwrap();
    a.add_ghost_atom(pre[2].parse().unwrap()).unwrap();
    a
}

fn fmt_de(a: &Allocator, r: Result<NodePtr, EvalErr>) -> String {
    match r {
        Ok(n) => {
            if expanded_nodes(a, n, EXPAND_CAP) > EXPAND_CAP {
                return "too-big".into();
            }
            format!(
                "ok {} {} {} {} {}",
                trees::to_hex(&trees::from_node(a, n)),
                a.pair_count(),
                a.allocated_pair_count(),
                a.atom_count(),
                a.heap_size()
            )
        }
        Err(e) => fmt_err(&e),
    }
}

pub fn run_de(args: &[&str]) -> String {
    let b = parse_hex(args[1]).unwrap();
    match args[0] {
        "br" => {
            let mut a = preload(&args[2..]);
            let r = node_from_bytes_backrefs(&mut a, &b);
            fmt_de(&a, r)
        }
        "brold" => {
            let mut a = preload(&args[2..]);
            let r = node_from_bytes_backrefs_old(&mut a, &b);
            fmt_de(&a, r)
        }
        "len" => match serialized_length_from_bytes(&b) {
            Ok(n) => format!("ok {}", n),
            Err(e) => fmt_err(&e),
        },
        _ => "bad-request".into(),
    }
}

pub fn run_ser(args: &[&str]) -> String {
    // SER br <limit|-> <tree>
    let t = trees::from_hex(args[2]).unwrap();
    let mut a = Allocator::new();
    let n = trees::build(&mut a, &t).unwrap();
    let r = if args[1] == "-" { node_to_bytes_backrefs(&a, n) } else { node_to_bytes_backrefs_limit(&a, n, args[1].parse().unwrap()) };
    match r {
        Ok(b) => format!("ok {}", hex::encode(b)),
        Err(e) => fmt_err(&e),
    }
}

pub fn run_path(args: &[&str]) -> String {
    match args[0] {
        "slow" | "fast" => {
            let t = trees::from_hex(args[2]).unwrap();
            let mut a = Allocator::new();
            let n = trees::build(&mut a, &t).unwrap();
            let r = if args[0] == "slow" {
                traverse_path(&a, &parse_hex(args[1]).unwrap(), n)
            } else {
                traverse_path_fast(&a, args[1].parse().unwrap(), n)
            };
            match r {
                Ok(red) => format!("ok {} {}", red.0, trees::to_hex(&trees::from_node(&a, red.1))),
                Err(e) => fmt_err(&e),
            }
        }
        "vec" => {
            // `traverse_path_with_vec` is private: reach it through the decoder.  For the stack
            // [x0 … xk] the stream `ff x0 ff x1 … ff xk fe <path>` has exactly that vector when
            // the back-reference is resolved, and decodes to (x0 . (x1 . (… (xk . REF))))
            let path = parse_hex(args[1]).unwrap();
            let st = trees::from_hex(args[2]).unwrap();
            let mut items = vec![];
            let mut cur = &st;
            while let T::Pair(x, r) = cur {
                items.push((**x).clone());
                cur = r;
            }
            let mut b = vec![];
            for x in &items {
                b.push(0xff);
                b.extend(trees::encode(x));
            }
            b.push(0xfe);
            clvmr::serde::write_atom::write_atom(&mut b, &path).unwrap();
            let mut a = Allocator::new();
            match node_from_bytes_backrefs(&mut a, &b) {
                Ok(mut n) => {
                    for _ in 0..items.len() {
                        match a.sexp(n) {
                            SExp::Pair(_, r) => n = r,
                            SExp::Atom => return "bad-shape".into(),
                        }
                    }
                    format!("ok {}", trees::to_hex(&trees::from_node(&a, n)))
                }
                Err(e) => fmt_err(&e),
            }
        }
        _ => "bad-request".into(),
    }
}

// ------------------------------------------------------------------ generators

/// `MAX_NUM_PAIRS` / `MAX_NUM_ATOMS - 2` are private constants: measure them on a fresh allocator
fn ghost_capacity() -> (usize, usize) {
    let mut a = Allocator::new();
    let (mut p, mut at) = (0usize, 0usize);
    for k in (0..40).rev() {
        if a.add_ghost_pair(1 << k).is_ok() {
            p += 1 << k;
        }
        if a.add_ghost_atom(1 << k).is_ok() {
            at += 1 << k;
        }
    }
    (p, at)
}

/// atoms for repetition-heavy trees: mostly ≥ 3 bytes (so that the pair around them is worth a
/// back-reference), drawn from a small pool
fn rep_atom(rng: &mut Rng, pool: &mut Vec<Vec<u8>>) -> Vec<u8> {
    if !pool.is_empty() && rng.chance(3, 5) {
        return rng.pick(pool).clone();
    }
    let a = match rng.below(6) {
        0 => trees::random_atom(rng, 12),
        1 => vec![rng.below(3) as u8 + 1],
        2 => {
            let l = rng.below(5) as usize + 3;
            rng.bytes(l)
        }
        3 => vec![b'x'; rng.below(40) as usize + 3],
        4 => {
            let l = *rng.pick(&[0x3f, 0x40, 0x41, 70]);
            rng.bytes(l)
        }
        _ => {
            let l = rng.below(4) as usize + 2;
            rng.bytes(l)
        }
    };
    if pool.len() < 6 {
        pool.push(a.clone());
    }
    a
}

/// trees with heavy repetition at varying depth: a pool of already built sub-trees (of all sizes) is
/// re-used as left and right children at every level
pub fn repetitive_tree(rng: &mut Rng, max_nodes: usize) -> T {
    let mut apool: Vec<Vec<u8>> = vec![];
    let mut pool: Vec<T> = vec![];
    let style = rng.below(8);
    if style == 0 {
        // the doubling chain of the crate's own test: l_{k+1} = (l_k . l_k)
        let mut t = T::Atom(rep_atom(rng, &mut apool));
        for _ in 0..rng.below(7) + 1 {
            t = if rng.chance(4, 5) { T::pair(t.clone(), t) } else { T::pair(t.clone(), T::Atom(rep_atom(rng, &mut apool))) };
        }
        return t;
    }
    if style == 1 {
        // a long list of few distinct items: long `rest` paths (multi-byte once > 6 items deep)
        let k = rng.below(3) as usize + 1;
        let items: Vec<T> = (0..k).map(|_| trees::random_tree(rng, 6, 10)).collect();
        let n = rng.below(max_nodes as u64 / 3 + 2) as usize + 2;
        return T::list((0..n).map(|_| rng.pick(&items).clone()).collect());
    }
    if style == 2 || style == 3 {
        // sub-trees equal to the (nil-terminated, reversed) list of already parsed siblings: the
        // serializer then emits back-references to the parse stack itself (paths ending on the
        // stack spine), several of them with conses in between
        let k = rng.below(3) as usize + 1;
        let items: Vec<T> = (0..k).map(|_| T::Atom(rep_atom(rng, &mut apool))).collect();
        let mut rev = items.clone();
        rev.reverse();
        if style == 2 {
            // palindromic list repeated: ((A B B A) (A B B A) …)
            let mut pal = items.clone();
            pal.extend(rev);
            let p = T::list(pal);
            let reps = rng.below(3) as usize + 2;
            return T::list((0..reps).map(|_| p.clone()).collect());
        }
        // (a b c (c b a) … ) possibly repeated and nested
        let mut l = items.clone();
        l.push(T::list(rev.clone()));
        if rng.chance(1, 2) {
            l.push(T::list(rev));
        }
        let inner = T::list(l);
        return if rng.chance(1, 2) { T::list(vec![inner.clone(), inner]) } else { inner };
    }
    let rounds = rng.below(max_nodes as u64 / 2 + 1) as usize + 1;
    let mut budget = max_nodes;
    for _ in 0..rounds {
        let pick = |rng: &mut Rng, pool: &Vec<T>, apool: &mut Vec<Vec<u8>>| -> T {
            if !pool.is_empty() && rng.chance(2, 3) {
                // bias to recent (deeper) entries half of the time
                if rng.chance(1, 2) {
                    let k = pool.len().min(3);
                    pool[pool.len() - 1 - rng.below(k as u64) as usize].clone()
                } else {
                    rng.pick(pool).clone()
                }
            } else {
                T::Atom(rep_atom(rng, apool))
            }
        };
        let l = pick(rng, &pool, &mut apool);
        let r = pick(rng, &pool, &mut apool);
        let t = T::pair(l, r);
        if t.nodes() > budget {
            break;
        }
        budget = budget.saturating_sub(1);
        pool.push(t);
    }
    match pool.pop() {
        Some(t) => {
            // keep the tree within the node budget (sizes can double per round)
            let mut t = t;
            while t.nodes() > max_nodes.max(3) * 4 {
                t = match t {
                    T::Pair(l, _) => *l,
                    a => a,
                };
            }
            t
        }
        None => T::Atom(rep_atom(rng, &mut apool)),
    }
}

/// walk a path (as the documentation defines it: bits from the least significant, the most
/// significant set bit is the terminator; the value 0 denotes nil) — independent of the crate
fn follow(path: &[u8], t: &T) -> Option<T> {
    let fnz = path.iter().take_while(|b| **b == 0).count();
    if fnz == path.len() {
        return Some(T::nil());
    }
    let mut bits = vec![];
    for b in path.iter().rev() {
        for k in 0..8 {
            bits.push((b >> k) & 1 == 1);
        }
    }
    while bits.last() == Some(&false) {
        bits.pop();
    }
    bits.pop(); // terminator
    let mut cur = t;
    for bit in bits {
        match cur {
            T::Atom(_) => return None,
            T::Pair(l, r) => cur = if bit { r } else { l },
        }
    }
    Some(cur.clone())
}

fn bits_to_path(bits: &[bool]) -> Vec<u8> {
    // bits[0] = first step from the root = least significant bit
    let n = bits.len() + 1;
    let nbytes = n.div_ceil(8);
    let mut v = vec![0u8; nbytes];
    for (i, b) in bits.iter().chain(std::iter::once(&true)).enumerate() {
        if *b {
            v[nbytes - 1 - i / 8] |= 1 << (i % 8);
        }
    }
    v
}

fn stack_tree(vals: &[T]) -> T {
    let mut r = T::nil();
    for v in vals {
        r = T::pair(v.clone(), r);
    }
    r
}

/// one back-reference path against the current parse stack, of a chosen kind; the kind is returned
/// for the distribution counters
fn gen_path(rng: &mut Rng, vals: &[T]) -> (Vec<u8>, &'static str) {
    let st = stack_tree(vals);
    // a random valid walk, biased to descend the stack (`rest`) first and then into an item
    let walk = |rng: &mut Rng, stop_den: u64| -> (Vec<bool>, bool) {
        let mut bits = vec![];
        let mut cur = &st;
        let mut depth = 0;
        loop {
            match cur {
                T::Atom(_) => return (bits, true),
                T::Pair(l, r) => {
                    if depth > 0 && rng.chance(1, stop_den) {
                        return (bits, false);
                    }
                    let right = if bits.iter().all(|b| *b) { rng.chance(3, 5) } else { rng.chance(1, 2) };
                    bits.push(right);
                    cur = if right { r } else { l };
                    depth += 1;
                }
            }
        }
    };
    match rng.below(14) {
        0 => (bits_to_path(&[]), "whole-stack"),
        1 => {
            // a stack list below the top: rest^k
            let k = rng.below(vals.len() as u64 + 1) as usize;
            (bits_to_path(&vec![true; k]), "stack-suffix")
        }
        2 => {
            // an item of the stack: rest^k first
            let k = rng.below(vals.len().max(1) as u64) as usize;
            let mut b = vec![true; k];
            b.push(false);
            (bits_to_path(&b), "stack-item")
        }
        3 => {
            let (mut bits, at_atom) = walk(rng, 1000);
            if at_atom {
                bits.push(rng.chance(1, 2));
                if rng.chance(1, 3) {
                    bits.push(rng.chance(1, 2));
                }
            }
            (bits_to_path(&bits), "into-atom")
        }
        4 => {
            // past the end of the stack: rest^(len+1 …)
            let k = vals.len() + 1 + rng.below(3) as usize;
            let mut b = vec![true; k];
            if rng.chance(1, 2) {
                b.push(false);
            }
            (bits_to_path(&b), "past-end")
        }
        5 => {
            let (bits, _) = walk(rng, 4);
            let mut p = vec![0u8; rng.below(3) as usize + 1];
            p.extend(bits_to_path(&bits));
            (p, "leading-zeros")
        }
        6 => (vec![], "empty-path"),
        7 => (vec![0u8; rng.below(3) as usize + 1], "all-zero"),
        8 => {
            // the partially built top of the stack
            let mut b = vec![false];
            if let Some(T::Pair(_, _)) = vals.last() {
                if rng.chance(1, 2) {
                    b.push(rng.chance(1, 2));
                }
            }
            (bits_to_path(&b), "stack-top")
        }
        9 => {
            let k = rng.below(4) as usize + 1;
            (rng.bytes(k), "random")
        }
        _ => {
            let (bits, _) = walk(rng, 5);
            (bits_to_path(&bits), "valid-walk")
        }
    }
}

/// how the path atom is written after the `fe` marker
fn encode_path(rng: &mut Rng, path: &[u8], out: &mut Vec<u8>) -> &'static str {
    match rng.below(10) {
        0 => {
            // non-minimal length prefix (still accepted by parse_path)
            if path.len() < 0x40 {
                let k = rng.below(4) as usize + 1; // extra prefix bytes
                let mut p = vec![0u8; k + 1];
                p[0] = !(0xffu8 >> (k + 1));
                p[k] = path.len() as u8;
                out.extend(p);
                out.extend(path);
                return "overlong-prefix";
            }
            clvmr::serde::write_atom::write_atom(out, path).unwrap();
            "canonical"
        }
        1 if path.len() == 1 && path[0] < 0x80 => {
            out.push(0x81);
            out.extend(path);
            "prefixed-single"
        }
        2 => {
            // length prefix promising more bytes than follow (the rest of the stream is eaten)
            out.push(0x80 + (path.len() as u8 + 1 + rng.below(3) as u8).min(0x3f));
            out.extend(path);
            "long-prefix"
        }
        _ => {
            clvmr::serde::write_atom::write_atom(out, path).unwrap();
            "canonical"
        }
    }
}

/// a structured stream: tokens are generated while the parse stack is simulated, so that
/// back-reference paths can be aimed (into the stack, into items, into atoms, past the end …)
pub fn structured_stream(rng: &mut Rng, max_tokens: usize, dist: &mut dyn FnMut(&str)) -> Vec<u8> {
    let mut out = vec![];
    let mut ops: Vec<bool> = vec![false]; // false = SExp, true = Cons
    let mut vals: Vec<T> = vec![];
    let mut tokens = 0usize;
    let mut size: usize = 0;
    let mut apool: Vec<Vec<u8>> = vec![];
    let p_ref = rng.below(5) + 1; // back-reference density of this stream (1..5 out of 8)
    while let Some(op) = ops.pop() {
        if op {
            let r = vals.pop().unwrap();
            let l = vals.pop().unwrap();
            vals.push(T::pair(l, r));
            continue;
        }
        tokens += 1;
        let open = ops.iter().filter(|o| !**o).count();
        if tokens + open < max_tokens && rng.chance(2, 5) {
            out.push(0xff);
            ops.push(true);
            ops.push(false);
            ops.push(false);
            continue;
        }
        if size < 2500 && rng.below(8) < p_ref && (!vals.is_empty() || rng.chance(1, 4)) {
            let (path, kind) = gen_path(rng, &vals);
            out.push(0xfe);
            let enc = encode_path(rng, &path, &mut out);
            dist(&format!("ref:{}", kind));
            dist(&format!("enc:{}", enc));
            match follow(&path, &stack_tree(&vals)) {
                Some(t) => {
                    size += t.nodes();
                    vals.push(t);
                }
                None => {
                    // the decoder stops here; append a little noise
                    let k = rng.below(3) as usize;
                    out.extend(rng.bytes(k));
                    return out;
                }
            }
            if enc == "long-prefix" {
                return out;
            }
            continue;
        }
        let a = rep_atom(rng, &mut apool);
        trees::wire_prefix(&a, &mut out);
        out.extend(&a);
        size += 1;
        vals.push(T::Atom(a));
    }
    out
}

fn mutate(rng: &mut Rng, b: &mut Vec<u8>) -> &'static str {
    match rng.below(8) {
        0 => "intact",
        1 => {
            if !b.is_empty() {
                let i = rng.below(b.len() as u64) as usize;
                b[i] = rng.next() as u8;
            }
            "byte-replaced"
        }
        2 => {
            let k = rng.below(b.len() as u64 + 1) as usize;
            b.truncate(k);
            "truncated"
        }
        3 => {
            let k = rng.below(3) as usize + 1;
            b.extend(rng.bytes(k));
            "extended"
        }
        4 => {
            if !b.is_empty() {
                let i = rng.below(b.len() as u64) as usize;
                b.insert(i, *rng.pick(&[0xffu8, 0xfe, 0x80, 0x00, 0x01, 0xc0, 0xfd]));
            }
            "marker-inserted"
        }
        5 => {
            // perturb a back-reference path: find an `fe` and change the following byte slightly
            let pos: Vec<usize> = (0..b.len().saturating_sub(1)).filter(|i| b[*i] == 0xfe).collect();
            if !pos.is_empty() {
                let i = *rng.pick(&pos) + 1;
                b[i] = match rng.below(4) {
                    0 => b[i].wrapping_add(1),
                    1 => b[i].wrapping_sub(1),
                    2 => b[i] ^ (1 << rng.below(7)),
                    _ => b[i].wrapping_mul(2),
                };
            }
            "path-perturbed"
        }
        6 => {
            if !b.is_empty() {
                let i = rng.below(b.len() as u64) as usize;
                b.remove(i);
            }
            "byte-removed"
        }
        _ => {
            if !b.is_empty() {
                let i = rng.below(b.len() as u64) as usize;
                b[i] ^= 1 << rng.below(8);
            }
            "bit-flipped"
        }
    }
}

/// a byte string for the decoders: structured / mutated serializer output / mutated classic
fn decoder_input(rng: &mut Rng, dist: &mut dyn FnMut(&str)) -> Vec<u8> {
    match rng.below(10) {
        0..=4 => {
            dist("src:structured");
            let mt = rng.below(40) as usize + 2;
            let mut b = structured_stream(rng, mt, dist);
            if rng.chance(1, 4) {
                let m = mutate(rng, &mut b);
                dist(&format!("mut:{}", m));
            }
            b
        }
        5..=7 => {
            dist("src:ser_br");
            let t = repetitive_tree(rng, 40);
            let mut a = Allocator::new();
            let n = trees::build(&mut a, &t).unwrap();
            let mut b = node_to_bytes_backrefs(&a, n).unwrap();
            let m = mutate(rng, &mut b);
            dist(&format!("mut:{}", m));
            b
        }
        8 => {
            dist("src:classic");
            let t = trees::random_tree(rng, 30, 20);
            let mut b = trees::encode(&t);
            let m = mutate(rng, &mut b);
            dist(&format!("mut:{}", m));
            b
        }
        _ => {
            dist("src:random");
            let k = rng.below(12) as usize + 1;
            (0..k).map(|_| *rng.pick(&[0xffu8, 0xfe, 0x80, 0x01, 0x02, 0x03, 0x05, 0x07, 0x81, 0x82, 0x00, 0x41])).collect()
        }
    }
}

/// inputs whose decoded tree would be too large to put on a reply line are skipped
fn small_enough(b: &[u8]) -> bool {
    let mut a = Allocator::new();
    match std::panic::catch_unwind(move || match node_from_bytes_backrefs(&mut a, b) {
        Ok(n) => expanded_nodes(&a, n, EXPAND_CAP) <= EXPAND_CAP,
        Err(_) => true,
    }) {
        Ok(v) => v,
        Err(_) => true,
    }
}

pub fn generate(name: &str, rng: &mut Rng, n: usize, tier: &str) -> Vec<String> {
    let mut out = Vec::new();
    let mut id = 0usize;
    let mut push = |k: &str, s: String| {
        out.push(format!("{} b{} {}", k, id, s));
        id += 1;
    };
    let mut nodist = |_: &str| {};
    match name {
        "backref_de" => {
            // exhaustive short byte strings through both decoders and the probe
            let maxlen = if tier == "thorough" { 3 } else { 2 };
            for len in 0..=maxlen {
                let total = 1u64 << (8 * len);
                for x in 0..total {
                    let b: Vec<u8> = (0..len).rev().map(|i| (x >> (8 * i)) as u8).collect();
                    // 3-byte strings: a first byte below 0xfe is one atom token (the decoders stop after it);
                    // those are covered by the <= 2-byte strings and by the classic streams
                    if len == 3 && b[0] < 0xfe && b[0] != 0x82 && b[0] != 0xc0 {
                        continue;
                    }
                    let h = hex_or_dash(&b);
                    push("DE", format!("br {}", h));
                    push("DE", format!("brold {}", h));
                    push("DE", format!("len {}", h));
                }
            }
            // every marker-only string up to 7 bytes over {ff, fe, 01, 80, 02} (5^k): the smallest inputs
            // in which a back-reference can see a non-trivial stack
            let alpha = [0xffu8, 0xfe, 0x01, 0x80, 0x02];
            let kmax = if tier == "thorough" { 7 } else { 5 };
            for k in 3..=kmax {
                for x in 0..5usize.pow(k as u32) {
                    let mut y = x;
                    let b: Vec<u8> = (0..k)
                        .map(|_| {
                            let d = alpha[y % 5];
                            y /= 5;
                            d
                        })
                        .collect();
                    if b[0] != 0xff {
                        continue;
                    }
                    let h = hex::encode(&b);
                    push("DE", format!("br {}", h));
                    push("DE", format!("brold {}", h));
                    push("DE", format!("len {}", h));
                }
            }
            for _ in 0..n {
                let b = decoder_input(rng, &mut nodist);
                if !small_enough(&b) {
                    continue;
                }
                let h = hex_or_dash(&b);
                push("DE", format!("br {}", h));
                push("DE", format!("brold {}", h));
                push("DE", format!("len {}", h));
            }
            // allocator limits: pre-loaded ghost pairs / atoms within 0..8 of the caps, small heap limits
            let (pcap, acap) = ghost_capacity();
            for _ in 0..(n / 4).max(40) {
                let b = decoder_input(rng, &mut nodist);
                if !small_enough(&b) {
                    continue;
                }
                let h = hex_or_dash(&b);
                let pre = match rng.below(4) {
                    0 => format!("- {} 0", pcap - rng.below(9) as usize),
                    1 => format!("- 0 {}", acap - rng.below(9) as usize),
                    2 => format!("{} 0 0", rng.below(40)),
                    _ => format!("{} {} {}", rng.below(200), pcap - rng.below(60) as usize, acap - rng.below(30) as usize),
                };
                push("DE", format!("br {} {}", h, pre));
                push("DE", format!("brold {} {}", h, pre));
            }
        }
        "backref_path" => {
            // all 1-byte paths and a grid of 2-byte paths on a fixed small tree and stack
            let t = T::pair(T::pair(T::Atom(vec![1]), T::Atom(vec![2])), T::pair(T::Atom(vec![3]), T::pair(T::Atom(vec![4]), T::nil())));
            let th = trees::to_hex(&t);
            let st = T::list(vec![T::Atom(vec![7]), T::pair(T::Atom(vec![8]), T::Atom(vec![9])), T::Atom(vec![10])]);
            let sh = trees::to_hex(&st);
            for x in 0..=255u32 {
                push("PATH", format!("slow {:02x} {}", x, th));
                push("PATH", format!("fast {} {}", x, th));
                push("PATH", format!("vec {:02x} {}", x, sh));
                push("PATH", format!("slow 00{:02x} {}", x, th));
                push("PATH", format!("vec 00{:02x} {}", x, sh));
                push("PATH", format!("slow {:02x}00 {}", x, th));
            }
            push("PATH", format!("slow - {}", th));
            push("PATH", format!("vec - {}", sh));
            push("PATH", format!("vec 01 80"));
            push("PATH", format!("vec 02 80"));
            push("PATH", format!("vec 03 80"));
            push("PATH", format!("vec - 80"));
            // u32 edges of traverse_path_fast (bit counts 7, 15, 23, 31 pay for a leading zero byte)
            let deep = {
                let mut d = T::Atom(vec![0x55]);
                for i in 0..40 {
                    d = if i % 3 == 0 { T::pair(T::Atom(vec![i as u8]), d) } else { T::pair(d, T::Atom(vec![i as u8])) };
                }
                d
            };
            let dh = trees::to_hex(&deep);
            for k in [6u32, 7, 8, 14, 15, 16, 22, 23, 24, 30, 31] {
                // the path that exists in `deep` with k steps
                let mut v: u32 = 1;
                let mut cur = &deep;
                let mut bits = vec![];
                for _ in 0..k {
                    if let T::Pair(l, r) = cur {
                        let right = matches!(**r, T::Pair(_, _));
                        bits.push(right);
                        cur = if right { r } else { l };
                    }
                }
                for b in bits.iter().rev() {
                    v = (v << 1) | (*b as u32);
                }
                push("PATH", format!("fast {} {}", v, dh));
                push("PATH", format!("slow {} {}", hex::encode(bits_to_path(&bits)), dh));
                push("PATH", format!("fast {} {}", v ^ 1, dh));
            }
            push("PATH", format!("fast {} {}", u32::MAX, dh));
            for _ in 0..n {
                let vals: Vec<T> = (0..rng.below(10)).map(|_| trees::random_tree(rng, 8, 6)).collect();
                let (path, _) = gen_path(rng, &vals);
                let ph = hex_or_dash(&path);
                match rng.below(3) {
                    0 => push("PATH", format!("vec {} {}", ph, trees::to_hex(&T::list(vals.clone())))),
                    1 => push("PATH", format!("slow {} {}", ph, trees::to_hex(&stack_tree(&vals)))),
                    _ => {
                        if path.len() <= 4 {
                            let v = path.iter().fold(0u32, |a, b| (a << 8) | *b as u32);
                            push("PATH", format!("fast {} {}", v, trees::to_hex(&stack_tree(&vals))));
                        } else {
                            push("PATH", format!("slow {} {}", ph, trees::to_hex(&stack_tree(&vals))));
                        }
                    }
                }
            }
        }
        "backref_ser" => {
            // the crate's own vectors
            for h in ["ffff85010203040585010203040580", "ff86666f6f626172ff86666f6f62617280"] {
                push("SER", format!("br - {}", h));
            }
            let sweep = breakeven_trees();
            // quick: every third tree of the sweep (all distances for one shape each), thorough: all
            let sweep: Vec<T> = if tier == "thorough" { sweep } else { sweep.into_iter().enumerate().filter(|(i, _)| i % 3 == (i / 3) % 3).map(|(_, t)| t).collect() };
            for t in &sweep {
                push("SER", format!("br - {}", trees::to_hex(t)));
            }
            for _ in 0..n {
                let big = tier == "thorough" && rng.chance(1, 10);
                let t = match rng.below(6) {
                    0 => trees::random_tree(rng, 40, 40),
                    _ => repetitive_tree(rng, if big { 150 } else { 40 }),
                };
                let h = trees::to_hex(&t);
                if rng.chance(1, 4) {
                    let mut a = Allocator::new();
                    let nd = trees::build(&mut a, &t).unwrap();
                    let l = node_to_bytes_backrefs(&a, nd).unwrap().len();
                    let lim = match rng.below(4) {
                        0 => l,
                        1 => l.saturating_sub(1),
                        2 => l + 1,
                        _ => rng.below(l as u64 + 2) as usize,
                    };
                    push("SER", format!("br {} {}", lim, h));
                } else {
                    push("SER", format!("br - {}", h));
                }
            }
        }
        _ => panic!("unknown stream {name}"),
    }
    out
}

// ------------------------------------------------------------------ oracles

fn fingerprint(a: &Allocator, n: NodePtr) -> [u8; 32] {
    let mut c = ObjectCache::new(treehash);
    *c.get_or_calculate(a, &n, None).unwrap()
}

/// build with maximal sharing (every distinct sub-tree once) — a different allocation history and
/// different node identities for the same content
fn build_shared(a: &mut Allocator, t: &T, memo: &mut HashMap<T, NodePtr>) -> NodePtr {
    if let Some(n) = memo.get(t) {
        return *n;
    }
    let n = match t {
        T::Atom(b) => a.new_atom(b).unwrap(),
        T::Pair(l, r) => {
            let ln = build_shared(a, l, memo);
            let rn = build_shared(a, r, memo);
            a.new_pair(ln, rn).unwrap()
        }
    };
    memo.insert(t.clone(), n);
    n
}

fn short(b: &[u8]) -> String {
    if b.len() <= 200 { hex_or_dash(b) } else { format!("<{} bytes: {}…>", b.len(), hex::encode(&b[..24])) }
}

/// C17 on the implementation alone
/// break-even sweep for "a back-reference is used only when it is shorter": a node X of every small
/// serialized size repeated at every distance 0..=80 (the path to the earlier copy grows by one bit
/// per step, i.e. by one byte every 8 steps), as the tail of an improper list, as the last element
/// of a proper list, and one level down
pub fn breakeven_trees() -> Vec<T> {
    let mut out = vec![];
    let mut xs: Vec<T> = (1..=8usize).map(|l| T::Atom((0..l).map(|i| 0x81 + i as u8).collect())).collect();
    xs.push(T::pair(T::Atom(vec![0x90, 0x91]), T::nil()));
    xs.push(T::pair(T::Atom(vec![0x92]), T::Atom(vec![0x93, 0x94, 0x95])));
    for x in &xs {
        for gap in 0..=80usize {
            let items: Vec<T> = (0..gap).map(|i| T::Atom(vec![1 + i as u8])).collect();
            for shape in 0..3 {
                let mut v = vec![x.clone()];
                v.extend(items.iter().cloned());
                let t = match shape {
                    0 => {
                        let mut r = x.clone();
                        for a in v.into_iter().rev() {
                            r = T::pair(a, r);
                        }
                        r
                    }
                    1 => {
                        v.push(x.clone());
                        T::list(v)
                    }
                    _ => {
                        v.push(T::pair(T::Atom(vec![0x7f]), x.clone()));
                        T::list(v)
                    }
                };
                out.push(t);
            }
        }
    }
    // sign twins: a canonical positive integer with its leading 0x00 and the same bytes without it (a
    // negative number), zero-extended and sign-extended spellings — as repeated atoms and inside otherwise
    // identical sub-trees. Whatever identifies sub-trees (hashes, keys) must tell them apart.
    for body in [vec![0x80u8], vec![0x80, 0x00], vec![0x80, 0x00, 0x00], vec![0xff, 0xff], vec![0xc3, 0x50, 0x11], vec![0x80, 0, 0, 0, 0, 0, 0, 1]] {
        let mut pos = vec![0u8];
        pos.extend_from_slice(&body);
        let mut neg = vec![0xffu8];
        neg.extend_from_slice(&body);
        for (a, b) in [(pos.clone(), body.clone()), (body.clone(), pos.clone()), (neg.clone(), body.clone()), (pos.clone(), neg.clone())] {
            let (a, b) = (T::Atom(a), T::Atom(b));
            let filler = T::Atom(vec![0x71, 0x72, 0x73, 0x74, 0x75]);
            out.push(T::pair(a.clone(), b.clone()));
            out.push(T::list(vec![a.clone(), b.clone(), a.clone(), b.clone()]));
            out.push(T::pair(T::pair(a.clone(), filler.clone()), T::pair(b.clone(), filler.clone())));
            out.push(T::list(vec![T::list(vec![filler.clone(), a.clone()]), T::list(vec![filler.clone(), b.clone()]), T::list(vec![filler.clone(), a.clone()])]));
        }
    }
    // stack tails: (x1 … xn (xk … x1)) — the last element equals the decoder's parse stack minus its top
    // n-k entries, so the back-reference is n-k "rest" steps into the stack itself and the path is all
    // one-bits (0xff leading byte when n-k = 7, 15, 23: whole-byte steps must stop before the terminator)
    for n in 2..=34usize {
        for k in 1..=n {
            let xs: Vec<T> = (0..n).map(|i| T::Atom(vec![0x90, i as u8, 0x33])).collect();
            let mut v = xs.clone();
            v.push(T::list(xs[..k].iter().rev().cloned().collect()));
            out.push(T::list(v));
        }
    }
    out
}

/// long atoms at the rows of the size-prefix table (1-byte prefix below 0x40, 2-byte below 0x2000): the
/// break-even gap is about 8 list elements per atom byte, so the second copy sits thousands of levels
/// down the parse stack and the path atom itself needs a 2-byte prefix
pub fn breakeven_long_atoms(tier: &str) -> Vec<T> {
    let mut out = vec![];
    let ls: &[usize] = if tier == "thorough" { &[63, 64, 65, 300, 511, 512, 513, 1000] } else { &[63, 64, 512] };
    for &l in ls {
        let x = T::Atom((0..l).map(|i| 0x81 + (i % 100) as u8).collect());
        for gap in (8 * l).saturating_sub(28)..=8 * l + 12 {
            let mut r = x.clone();
            for _ in 0..gap {
                r = T::pair(T::Atom(vec![1]), r);
            }
            out.push(T::pair(x.clone(), r));
        }
    }
    out
}

/// C17 on the long-atom break-even family only (deep trees: just the length and round-trip checks)
fn oracle_c17_deep(tier: &str) -> OracleReport {
    let mut rep = OracleReport::default();
    for t in breakeven_long_atoms(tier) {
        rep.evaluations += 1;
        let classic = trees::encode(&t);
        let th = short(&classic);
        let mut a = Allocator::new();
        let node = trees::build(&mut a, &t).unwrap();
        let ser = match node_to_bytes_backrefs(&a, node) {
            Ok(b) => b,
            Err(e) => {
                rep.fail("ser_br_total", format!("tree={} error {}", th, err_kind(&e)));
                continue;
            }
        };
        rep.nontrivial += 1;
        rep.hit(if ser.len() < classic.len() { "compressed" } else { "no-backref" });
        if ser.len() > classic.len() {
            rep.fail("ser_br_never_grows", format!("tree=(X 1 … 1 . X) |X|={} nodes={} |ser_br|={} |ser|={}", match &t { T::Pair(x, _) => match &**x { T::Atom(b) => b.len(), _ => 0 }, _ => 0 }, t.nodes(), ser.len(), classic.len()));
        }
        let mut a2 = Allocator::new();
        match node_from_bytes_backrefs(&mut a2, &ser) {
            Ok(n2) if node_to_bytes_limit(&a2, n2, classic.len() + 8).map(|c| c == classic).unwrap_or(false) => {}
            Ok(_) => rep.fail("de_ser_br", format!("tree={} ser_br={} decodes to a different tree", th, short(&ser))),
            Err(e) => rep.fail("de_ser_br", format!("tree={} ser_br={} decode error {}", th, short(&ser), err_kind(&e))),
        }
    }
    rep
}

fn oracle_c17(rng: &mut Rng, n: usize, tier: &str) -> OracleReport {
    let mut rep = OracleReport::default();
    let mut seen = std::collections::HashSet::new();
    let sweep = breakeven_trees();
    for i in 0..n + sweep.len() {
        let big = tier == "thorough" && i % 7 == 0;
        let t = if i < sweep.len() {
            sweep[i].clone()
        } else {
            match rng.below(6) {
                0 => trees::random_tree(rng, 60, 60),
                _ => repetitive_tree(rng, if big { 400 } else { 60 }),
            }
        };
        rep.evaluations += 1;
        let classic = trees::encode(&t);
        let th = short(&classic);
        let mut a = Allocator::new();
        let node = trees::build(&mut a, &t).unwrap();
        let ser = match node_to_bytes_backrefs(&a, node) {
            Ok(b) => b,
            Err(e) => {
                rep.fail("ser_br_total", format!("tree={} error {}", th, err_kind(&e)));
                continue;
            }
        };
        let has_ref = ser.len() < classic.len();
        if seen.insert(classic.clone()) && has_ref {
            rep.nontrivial += 1;
        }
        rep.hit(if has_ref { "compressed" } else { "no-backref" });
        rep.hit(&format!("nodes<={}", t.nodes().next_power_of_two()));
        if has_ref {
            rep.hit(&format!("saved<={}%", ((classic.len() - ser.len()) * 100 / classic.len()).div_ceil(10) * 10));
        }
        rep.sample(format!("tree {} -> {}", th, short(&ser)));
        // round trip through both decoders
        for (name, old) in [("de_ser_br", false), ("de_old_ser_br", true)] {
            let mut a2 = Allocator::new();
            let r = if old { node_from_bytes_backrefs_old(&mut a2, &ser) } else { node_from_bytes_backrefs(&mut a2, &ser) };
            match r {
                Ok(n2) if fingerprint(&a2, n2) == fingerprint(&a, node) && trees::from_node(&a2, n2) == t => {}
                Ok(_) => rep.fail(name, format!("tree={} ser_br={} decodes to a different tree", th, short(&ser))),
                Err(e) => rep.fail(name, format!("tree={} ser_br={} decode error {}", th, short(&ser), err_kind(&e))),
            }
        }
        if !is_canonical_serialization(&ser) {
            rep.fail("ser_br_canonical", format!("tree={} ser_br={} is_canonical_serialization=false", th, short(&ser)));
        }
        match node_to_bytes_limit(&a, node, classic.len() + 8) {
            Ok(c) if c == classic && ser.len() <= c.len() => {}
            Ok(c) => rep.fail("ser_br_never_grows", format!("tree={} |ser_br|={} |ser|={}", th, ser.len(), c.len())),
            Err(e) => rep.fail("ser_br_never_grows", format!("tree={} classic error {}", th, err_kind(&e))),
        }
        match serialized_length_from_bytes(&ser) {
            Ok(l) if l as usize == ser.len() => {}
            other => rep.fail("ser_br_len", format!("tree={} ser_br={} probe {:?}", th, short(&ser), other.map_err(|e| err_kind(&e)))),
        }
        // run to run, allocator to allocator: same allocator again; a fresh allocator with a different
        // history and maximal sharing
        let again = node_to_bytes_backrefs(&a, node).unwrap();
        let mut a3 = Allocator::new();
        for _ in 0..rng.below(5) {
            let k = rng.below(9) as usize;
            let _ = a3.new_atom(&rng.bytes(k));
        }
        let n3 = build_shared(&mut a3, &t, &mut HashMap::new());
        let shared = node_to_bytes_backrefs(&a3, n3).unwrap();
        if again != ser || shared != ser {
            rep.fail("ser_br_deterministic", format!("tree={} first={} again={} shared-build={}", th, short(&ser), short(&again), short(&shared)));
        }
        // re-serialization of the decoded tree (DAG produced by the decoder)
        let mut a4 = Allocator::new();
        if let Ok(n4) = node_from_bytes_backrefs(&mut a4, &ser) {
            match node_to_bytes_backrefs(&a4, n4) {
                Ok(b) if b == ser => {}
                other => rep.fail("ser_de_ser", format!("tree={} ser_br={} reserialized={:?}", th, short(&ser), other.map(|b| short(&b)).map_err(|e| err_kind(&e)))),
            }
        }
        // the limited variant: succeeds exactly from |ser_br| on
        for l in [ser.len().saturating_sub(1), ser.len(), rng.below(ser.len() as u64 + 1) as usize] {
            match node_to_bytes_backrefs_limit(&a, node, l) {
                Ok(b) if l >= ser.len() && b == ser => {}
                Err(EvalErr::OutOfMemory) if l < ser.len() => {}
                other => rep.fail("ser_br_limit", format!("tree={} limit={} len={} got {:?}", th, l, ser.len(), other.map(|b| short(&b)).map_err(|e| err_kind(&e)))),
            }
        }
    }
    rep
}

#[derive(PartialEq, Debug)]
enum Out {
    Ok([u8; 32], usize, usize, usize),
    Err(String),
    Panic,
}

fn run_decoder(old: bool, b: &[u8], pre: &[String]) -> Out {
    let pre: Vec<&str> = pre.iter().map(|s| s.as_str()).collect();
    let b = b.to_vec();
    match std::panic::catch_unwind(move || {
        let mut a = preload(&pre);
        let r = if old { node_from_bytes_backrefs_old(&mut a, &b) } else { node_from_bytes_backrefs(&mut a, &b) };
        match r {
            Ok(n) => Out::Ok(fingerprint(&a, n), a.pair_count(), a.atom_count(), a.heap_size()),
            Err(e) => Out::Err(err_kind(&e)),
        }
    }) {
        Ok(o) => o,
        Err(_) => Out::Panic,
    }
}

/// C18 on the implementation alone
fn oracle_c18(rng: &mut Rng, n: usize, tier: &str) -> OracleReport {
    let mut rep = OracleReport::default();
    let mut seen = std::collections::HashSet::new();
    let mut cases: Vec<(Vec<u8>, Vec<String>)> = vec![];
    let maxlen = if tier == "thorough" { 3 } else { 2 };
    for len in 0..=maxlen {
        for x in 0..(1u64 << (8 * len)) {
            let b: Vec<u8> = (0..len).rev().map(|i| (x >> (8 * i)) as u8).collect();
            if len == 3 && b[0] < 0xfe && b[0] != 0x82 && b[0] != 0xc0 {
                continue;
            }
            cases.push((b, vec![]));
        }
    }
    let nexh = cases.len();
    let (pcap, acap) = ghost_capacity();
    let mut dist: Vec<String> = vec![];
    for _ in 0..n {
        let b = decoder_input(rng, &mut |s: &str| dist.push(s.to_string()));
        let pre = match rng.below(12) {
            0 => vec!["-".to_string(), (pcap - rng.below(9) as usize).to_string(), "0".to_string()],
            1 => vec!["-".to_string(), "0".to_string(), (acap - rng.below(9) as usize).to_string()],
            2 => vec![rng.below(40).to_string(), "0".to_string(), "0".to_string()],
            _ => vec![],
        };
        cases.push((b, pre));
    }
    for d in dist {
        rep.hit(&d);
    }
    for (i, (b, pre)) in cases.iter().enumerate() {
        rep.evaluations += 1;
        let h = short(b);
        let newr = run_decoder(false, b, pre);
        let oldr = run_decoder(true, b, pre);
        let probe = {
            let b2 = b.clone();
            std::panic::catch_unwind(move || serialized_length_from_bytes(&b2).map_err(|e| err_kind(&e)))
        };
        let accepted = matches!(newr, Out::Ok(..));
        if i >= nexh {
            rep.hit(if accepted { "accepted" } else { "rejected" });
            if !pre.is_empty() {
                rep.hit("preloaded-allocator");
            }
            if let Out::Err(k) = &newr {
                rep.hit(&format!("err:{}", k));
            }
        }
        let has_ref = b.contains(&0xfe);
        if seen.insert(b.clone()) && (accepted && b.len() > 2 || has_ref && b.len() > 3) {
            rep.nontrivial += 1;
        }
        if i >= nexh && accepted {
            rep.sample(format!("bytes {} pre {:?} -> {:?}", h, pre, newr));
        }
        if newr == Out::Panic || oldr == Out::Panic || probe.is_err() {
            rep.fail("de_br_no_panic", format!("bytes={} pre={:?} new={:?} old={:?} probe_panicked={}", h, pre, newr, oldr, probe.is_err()));
            continue;
        }
        match (&newr, &oldr) {
            (Out::Ok(f1, p1, a1, h1), Out::Ok(f2, p2, a2, h2)) => {
                if f1 != f2 {
                    rep.fail("de_br_same_tree", format!("bytes={} pre={:?} trees differ", h, pre));
                }
                if p1 != p2 {
                    rep.fail("de_br_same_pair_count", format!("bytes={} pre={:?} pair_count new={} old={}", h, pre, p1, p2));
                }
                if a1 != a2 || h1 != h2 {
                    rep.fail("de_br_same_atom_count", format!("bytes={} pre={:?} atoms {} vs {}, heap {} vs {}", h, pre, a1, a2, h1, h2));
                }
            }
            (Out::Err(_), Out::Err(_)) => {
                // "leave identical pair counts" also when both reject (the crate's own fuzz target asserts it)
                let count = |old: bool| -> Option<usize> {
                    let prev: Vec<&str> = pre.iter().map(|s| s.as_str()).collect();
                    let bb = b.clone();
                    std::panic::catch_unwind(move || {
                        let mut a = preload(&prev);
                        let _ = if old { node_from_bytes_backrefs_old(&mut a, &bb) } else { node_from_bytes_backrefs(&mut a, &bb) };
                        a.pair_count()
                    })
                    .ok()
                };
                let (c1, c2) = (count(false), count(true));
                if c1 != c2 {
                    rep.fail("de_br_same_pair_count_rejected", format!("bytes={} pre={:?} both reject, pair_count new={:?} old={:?}", h, pre, c1, c2));
                }
            }
            _ => rep.fail("de_br_same_inputs", format!("bytes={} pre={:?} new={:?} old={:?}", h, pre, newr, oldr)),
        }
        // the probe uses its own fresh allocator: compare with the decoders on a default allocator only
        if pre.is_empty() {
            let probe = probe.unwrap();
            match (&newr, &probe) {
                (Out::Ok(f, ..), Ok(l)) => {
                    let l = *l as usize;
                    // consumed = l: the decoder accepts the prefix of length l (same tree) and rejects l-1
                    let p_ok = l <= b.len() && matches!(run_decoder(false, &b[..l], pre), Out::Ok(f2, ..) if f2 == *f);
                    let p_short = l == 0 || !matches!(run_decoder(false, &b[..l - 1], pre), Out::Ok(..));
                    if !p_ok || !p_short {
                        rep.fail("len_is_consumed", format!("bytes={} probe={} prefix-accepted={} shorter-rejected={}", h, l, p_ok, p_short));
                    }
                    match serialized_length_from_bytes_trusted(b) {
                        Ok(t) if t as usize == l => {}
                        other => rep.fail("len_eq_trusted", format!("bytes={} probe={} trusted={:?}", h, l, other.map_err(|e| err_kind(&e)))),
                    }
                }
                (Out::Err(_), Err(_)) => {}
                _ => rep.fail("len_same_inputs", format!("bytes={} decoder={:?} probe={:?}", h, newr, probe)),
            }
        }
    }
    rep
}

pub fn oracle(name: &str, rng: &mut Rng, n: usize, tier: &str) -> OracleReport {
    match name {
        "backref_c17" => oracle_c17(rng, n, tier),
        "backref_c17deep" => oracle_c17_deep(tier),
        "backref_c18" => oracle_c18(rng, n, tier),
        _ => panic!("unknown oracle {name}"),
    }
}
