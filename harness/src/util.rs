use clvmr::error::EvalErr;

pub fn fnv(s: &str) -> u64 {
    let mut h: u64 = 0xcbf29ce484222325;
    for b in s.bytes() {
        h ^= b as u64;
        h = h.wrapping_mul(0x100000001b3);
    }
    h
}

pub fn hex_or_dash(b: &[u8]) -> String {
    if b.is_empty() { "-".to_string() } else { hex::encode(b) }
}

pub fn parse_hex(s: &str) -> Option<Vec<u8>> {
    if s == "-" { Some(vec![]) } else { hex::decode(s).ok() }
}

/// `EvalErr` variant name — the small enum both sides are compared on.
pub fn err_kind(e: &EvalErr) -> String {
    let d = format!("{:?}", e);
    let end = d.find(|c: char| !c.is_alphanumeric()).unwrap_or(d.len());
    d[..end].to_string()
}

pub fn fmt_err(e: &EvalErr) -> String {
    format!("err {}", err_kind(e))
}

#[derive(Default)]
pub struct OracleReport {
    pub evaluations: u64,
    pub nontrivial: u64,
    /// each failure: (oracle name, description of the input and what failed)
    pub failures: Vec<(String, String)>,
    pub samples: Vec<String>,
    pub dist: std::collections::BTreeMap<String, u64>,
}

impl OracleReport {
    pub fn fail(&mut self, oracle: &str, what: String) {
        if self.failures.len() < 50 {
            self.failures.push((oracle.to_string(), what));
        }
    }
    pub fn hit(&mut self, k: &str) {
        *self.dist.entry(k.to_string()).or_insert(0) += 1;
    }
    pub fn sample(&mut self, s: String) {
        if self.samples.len() < 5 {
            self.samples.push(s);
        }
    }
}
