use clvm_verif_harness::*;
use std::io::{BufRead, Write};

fn main() {
    // panics are caught per case (catch_unwind); keep the last message so that a panic which escapes
    // a component (a harness generator or oracle running into changed library behaviour) is reported
    // with its location instead of silently
    std::panic::set_hook(Box::new(|info| {
        if let Ok(mut g) = LAST_PANIC.lock() {
            *g = info.to_string();
        }
    }));
    let r = std::panic::catch_unwind(real_main);
    if r.is_err() {
        let msg = LAST_PANIC.lock().map(|g| g.clone()).unwrap_or_default().replace('\n', " ");
        println!("FAIL harness_panic {}", msg);
        std::process::exit(101);
    }
}

static LAST_PANIC: std::sync::Mutex<String> = std::sync::Mutex::new(String::new());

fn real_main() {
    let args: Vec<String> = std::env::args().collect();
    match args[1].as_str() {
        "gen" => {
            let lines = gen_stream(&args[2], args[3].parse().unwrap(), args[4].parse().unwrap(), args.get(5).map(|s| s.as_str()).unwrap_or("quick"));
            let out = std::io::stdout();
            let mut out = std::io::BufWriter::new(out.lock());
            for l in lines {
                writeln!(out, "{}", l).unwrap();
            }
        }
        "run" => {
            let stdin = std::io::stdin();
            let out = std::io::stdout();
            let mut out = std::io::BufWriter::new(out.lock());
            for line in stdin.lock().lines() {
                let line = line.unwrap();
                let toks: Vec<&str> = line.trim().split(' ').collect();
                if toks.len() < 2 {
                    writeln!(out, "? bad-request").unwrap();
                    continue;
                }
                let r = run_request(toks[0], &toks[2..]);
                writeln!(out, "{} {}", toks[1], r).unwrap();
            }
        }
        "one" => {
            // `h one KIND id args…`: a single request; used by components that run a case which may
            // abort the process (allocation failure) in a child of their own
            let toks: Vec<&str> = args[2..].iter().map(|s| s.as_str()).collect();
            println!("{} {}", toks[1], run_request(toks[0], &toks[2..]));
        }
        "oracle" => {
            let rep = run_oracle(&args[2], args[3].parse().unwrap(), args[4].parse().unwrap(), args.get(5).map(|s| s.as_str()).unwrap_or("quick"));
            for (o, w) in &rep.failures {
                println!("FAIL {} {}", o, w);
            }
            for s in &rep.samples {
                println!("SAMPLE {}", s);
            }
            for (k, v) in &rep.dist {
                println!("DIST {} {}", k, v);
            }
            println!("STATS evaluations={} nontrivial={} failures={}", rep.evaluations, rep.nontrivial, rep.failures.len());
        }
        _ => panic!("usage: h gen|run|oracle …"),
    }
}
