//! Type-directed generator of CLVM programs (mostly successful), a malformed stream, flag sets,
//! budget classes; the RUN / OP / UNK request streams.
use crate::rng::Rng;
use crate::run::run_with;
use crate::trees::{self, T};

#[derive(Clone, Copy, PartialEq, Eq, Debug)]
pub enum Ty {
    Int,
    Bytes,
    Bool,
    List,
    Any,
}

pub fn atom(b: &[u8]) -> T {
    T::Atom(b.to_vec())
}
pub fn int(v: i128) -> T {
    // minimal two's complement
    if v == 0 {
        return atom(&[]);
    }
    let mut b = v.to_be_bytes().to_vec();
    while b.len() > 1 && ((b[0] == 0 && b[1] & 0x80 == 0) || (b[0] == 0xff && b[1] & 0x80 != 0)) {
        b.remove(0);
    }
    T::Atom(b)
}
pub fn quote(v: T) -> T {
    T::pair(atom(&[1]), v)
}
pub fn call(op: u8, args: Vec<T>) -> T {
    T::pair(atom(&[op]), T::list(args))
}

pub fn random_int(rng: &mut Rng) -> T {
    match rng.below(14) {
        0 => int(0),
        1 => int(rng.range(-3, 3) as i128),
        2 => int(rng.range(-200, 200) as i128),
        3 => int(rng.range(-70000, 70000) as i128),
        4 => int(*rng.pick(&[127i128, 128, 255, 256, 32767, 32768, 65535, 65536, (1 << 26) - 1, 1 << 26, (1 << 31) - 1, 1 << 31, (1 << 32) - 1, 1 << 32, i64::MAX as i128, i64::MAX as i128 + 1, u64::MAX as i128, u64::MAX as i128 + 1, -128, -129, -32768, -32769, i64::MIN as i128, i64::MIN as i128 - 1])),
        5 => {
            // non-canonical: redundant sign bytes
            let T::Atom(mut b) = int(rng.range(-300, 300) as i128) else { unreachable!() };
            let neg = !b.is_empty() && b[0] & 0x80 != 0;
            let k = rng.below(3) as usize + 1;
            for _ in 0..k {
                b.insert(0, if neg { 0xff } else { 0 });
            }
            T::Atom(b)
        }
        6 | 7 => {
            let n = rng.below(40) as usize + 5;
            T::Atom(rng.bytes(n))
        }
        8 => {
            let n = *rng.pick(&[255usize, 256, 257, 300, 1023, 1024, 1025, 2048, 2049]);
            T::Atom(rng.bytes(n))
        }
        _ => int((rng.next() as i64 >> rng.below(60)) as i128),
    }
}

pub fn random_bytes(rng: &mut Rng) -> T {
    T::Atom(trees::random_atom(rng, 80))
}

/// env is a proper list of `n` values; element i is reached by path (2^(i+1) + 2^i - 1)… computed here
pub fn arg_path(i: usize) -> T {
    // first = 2 (0b10), rest = 3 (0b11): element i = f(r^i(env)): bits (LSB first) 1×i then 0, then sentinel
    let mut v: u128 = 1; // sentinel
    v = (v << 1) | 0; // `f` is the last step taken => most significant below the sentinel
    for _ in 0..i {
        v = (v << 1) | 1;
    }
    int(v as i128)
}

pub struct Gen<'a> {
    pub rng: &'a mut Rng,
    pub env_types: Vec<Ty>,
    pub budget: usize,
    pub allow_softfork: bool,
    pub crypto: bool,
}

impl Gen<'_> {
    fn leaf(&mut self, ty: Ty) -> T {
        // an environment argument of the right type, else a quoted constant
        let cands: Vec<usize> = self.env_types.iter().enumerate().filter(|(_, t)| **t == ty || ty == Ty::Any).map(|(i, _)| i).collect();
        if !cands.is_empty() && self.rng.chance(1, 3) {
            return arg_path(*self.rng.pick(&cands));
        }
        quote(self.constant(ty))
    }
    pub fn constant(&mut self, ty: Ty) -> T {
        match ty {
            Ty::Int => random_int(self.rng),
            Ty::Bytes => random_bytes(self.rng),
            Ty::Bool => {
                if self.rng.chance(1, 2) {
                    atom(&[])
                } else {
                    atom(&[1])
                }
            }
            Ty::List => {
                let n = self.rng.below(4) as usize;
                T::list((0..n).map(|_| random_int(self.rng)).collect())
            }
            Ty::Any => match self.rng.below(4) {
                0 => random_int(self.rng),
                1 => random_bytes(self.rng),
                2 => trees::random_tree(self.rng, 6, 10),
                _ => T::list(vec![random_int(self.rng), random_bytes(self.rng)]),
            },
        }
    }
    pub fn expr(&mut self, ty: Ty, depth: usize) -> T {
        if depth == 0 || self.budget == 0 || self.rng.chance(1, 4) {
            return self.leaf(ty);
        }
        self.budget -= 1;
        let d = depth - 1;
        let n_var = |g: &mut Self| g.rng.below(4) as usize;
        match ty {
            Ty::Int => match self.rng.below(20) {
                0 | 1 => {
                    let n = n_var(self);
                    call(16, (0..n).map(|_| self.expr(Ty::Int, d)).collect())
                }
                2 | 3 => {
                    let n = n_var(self);
                    call(17, (0..n).map(|_| self.expr(Ty::Int, d)).collect())
                }
                4 => {
                    let n = n_var(self);
                    call(18, (0..n).map(|_| self.expr(Ty::Int, d)).collect())
                }
                5 => call(19, vec![self.expr(Ty::Int, d), self.nonzero(d)]),
                6 => call(61, vec![self.expr(Ty::Int, d), self.nonzero(d)]),
                7 => call(22, vec![self.expr(Ty::Int, d), quote(int(self.rng.range(-70, 70) as i128))]),
                8 => call(23, vec![self.expr(Ty::Bytes, d), quote(int(self.rng.range(-70, 70) as i128))]),
                9 => {
                    let n = n_var(self);
                    let op = *self.rng.pick(&[24u8, 25, 26]);
                    call(op, (0..n).map(|_| self.expr(Ty::Int, d)).collect())
                }
                10 => call(27, vec![self.expr(Ty::Int, d)]),
                11 => call(13, vec![self.expr(Ty::Bytes, d)]),
                12 => call(60, vec![self.expr(Ty::Int, d), quote(int(self.rng.below(300) as i128)), self.nonzero(d)]),
                13 => call(3, vec![self.expr(Ty::Bool, d), self.expr(Ty::Int, d), self.expr(Ty::Int, d)]),
                14 => call(5, vec![call(20, vec![self.expr(Ty::Int, d), self.nonzero(d)])]),
                15 => self.apply(Ty::Int, d),
                16 => self.unknown_op(d),
                _ => self.leaf(Ty::Int),
            },
            Ty::Bytes => match self.rng.below(10) {
                0 | 1 => {
                    let n = n_var(self);
                    call(14, (0..n).map(|_| self.expr(Ty::Bytes, d)).collect())
                }
                2 => {
                    let n = n_var(self);
                    call(11, (0..n).map(|_| self.expr(Ty::Bytes, d)).collect())
                }
                3 => {
                    let s = self.rng.below(3) as i128;
                    let e = s + self.rng.below(3) as i128;
                    if self.rng.chance(1, 2) {
                        call(12, vec![self.expr(Ty::Bytes, d), quote(int(s)), quote(int(e))])
                    } else {
                        call(12, vec![self.expr(Ty::Bytes, d), quote(int(s))])
                    }
                }
                4 => call(11, vec![quote(atom(&[1])), quote(int(self.rng.below(40) as i128))]),
                5 => self.expr(Ty::Int, d),
                6 => call(3, vec![self.expr(Ty::Bool, d), self.expr(Ty::Bytes, d), self.expr(Ty::Bytes, d)]),
                7 => self.apply(Ty::Bytes, d),
                8 if self.crypto => self.crypto_expr(d),
                _ => self.leaf(Ty::Bytes),
            },
            Ty::Bool => match self.rng.below(10) {
                0 => call(21, vec![self.expr(Ty::Int, d), self.expr(Ty::Int, d)]),
                1 => call(10, vec![self.expr(Ty::Bytes, d), self.expr(Ty::Bytes, d)]),
                2 => call(9, vec![self.expr(Ty::Bytes, d), self.expr(Ty::Bytes, d)]),
                3 => call(7, vec![self.expr(Ty::Any, d)]),
                4 => call(32, vec![self.expr(Ty::Bool, d)]),
                5 | 6 => {
                    let n = n_var(self);
                    let op = *self.rng.pick(&[33u8, 34]);
                    call(op, (0..n).map(|_| self.expr(Ty::Bool, d)).collect())
                }
                7 => self.softfork(d),
                _ => self.leaf(Ty::Bool),
            },
            Ty::List => match self.rng.below(6) {
                0 | 1 => call(4, vec![self.expr(Ty::Any, d), self.expr(Ty::List, d)]),
                2 => call(20, vec![self.expr(Ty::Int, d), self.nonzero(d)]),
                3 => call(6, vec![call(4, vec![self.expr(Ty::Any, d), self.expr(Ty::List, d)])]),
                _ => self.leaf(Ty::List),
            },
            Ty::Any => {
                let t = *self.rng.pick(&[Ty::Int, Ty::Bytes, Ty::Bool, Ty::List]);
                self.expr(t, depth)
            }
        }
    }
    /// a G1 point expression
    fn g1(&mut self, d: usize) -> T {
        match self.rng.below(6) {
            0 if d > 0 => call(29, vec![self.g1(d - 1), self.g1(d - 1)]),
            1 if d > 0 => call(50, vec![self.g1(d - 1), quote(random_int(self.rng))]),
            2 if d > 0 => call(51, vec![self.g1(d - 1)]),
            3 if d > 0 => call(49, vec![self.g1(d - 1), self.g1(d - 1)]),
            _ => call(30, vec![quote(random_int(self.rng))]),
        }
    }
    /// hashing and BLS G1 operators (byte-string results)
    fn crypto_expr(&mut self, d: usize) -> T {
        match self.rng.below(8) {
            0 | 1 => call(63, vec![self.expr(Ty::Any, d)]),
            2 => {
                let n = self.rng.below(3) as usize;
                call(62, (0..n).map(|_| self.expr(Ty::Bytes, d)).collect())
            }
            3 => {
                let h1 = quote(T::Atom(self.rng.bytes(32)));
                let h2 = call(11, vec![self.expr(Ty::Bytes, d)]);
                let amt = quote(int((self.rng.next() >> self.rng.below(64)) as i128));
                call(48, vec![h1, h2, amt])
            }
            _ => self.g1(d.min(2)),
        }
    }
    fn nonzero(&mut self, d: usize) -> T {
        if self.rng.chance(1, 12) {
            return self.expr(Ty::Int, d);
        }
        let mut v = self.rng.range(-1000, 1000) as i128;
        if v == 0 {
            v = 7;
        }
        if self.rng.chance(1, 4) {
            let n = self.rng.below(20) as usize + 2;
            let mut b = self.rng.bytes(n);
            if b.iter().all(|x| *x == 0) {
                b[0] = 1;
            }
            return quote(T::Atom(b));
        }
        quote(int(v))
    }
    /// `(a (q . body) new_env)` with a fresh environment
    fn apply(&mut self, ty: Ty, d: usize) -> T {
        let n = self.rng.below(3) as usize + 1;
        let tys: Vec<Ty> = (0..n).map(|_| *self.rng.pick(&[Ty::Int, Ty::Bytes, Ty::Bool])).collect();
        let env_exprs: Vec<T> = tys.iter().map(|t| self.expr(*t, d)).collect();
        let saved = std::mem::replace(&mut self.env_types, tys);
        let body = self.expr(ty, d);
        self.env_types = saved;
        // env list is built with cons
        let mut env = quote(atom(&[]));
        for e in env_exprs.into_iter().rev() {
            env = call(4, vec![e, env]);
        }
        if self.rng.chance(1, 8) {
            // the ((X) …) syntax is not available for `a`; use it for an ordinary operator instead
            return T::pair(T::pair(atom(&[2]), atom(&[])), T::list(vec![quote(body), env]));
        }
        call(2, vec![quote(body), env])
    }
    fn unknown_op(&mut self, d: usize) -> T {
        let len = self.rng.below(3) as usize + 1;
        let mut op = self.rng.bytes(len);
        if op[0] == 0xff {
            op[0] = 0x7f;
        }
        if len == 1 && op[0] < 0x45 {
            op[0] |= 0x80;
        }
        if len > 1 {
            op[0] &= 0x03;
        }
        let n = self.rng.below(4) as usize;
        let args: Vec<T> = (0..n).map(|_| self.expr(Ty::Bytes, d)).collect();
        T::pair(T::Atom(op), T::list(args))
    }
    /// a softfork guard whose declared cost is correct for default flags (found by running the body)
    fn softfork(&mut self, d: usize) -> T {
        if !self.allow_softfork {
            return self.leaf(Ty::Bool);
        }
        let saved = std::mem::replace(&mut self.env_types, vec![]);
        let body = self.expr(Ty::Any, d.min(2));
        self.env_types = saved;
        let ext = *self.rng.pick(&[0i128, 0, 1, 1, 2, 5]);
        // cost of the body under a guard: run `(softfork 1_000_000_000 ext (q . body) ())` is not accepted
        // unless the cost matches, so measure the body alone and add the fixed overhead.
        let (r, _) = run_with("chia", 0, 0, None, &body, &T::nil(), "");
        let inner_cost: Option<u64> = r.split(' ').nth(1).and_then(|c| if r.starts_with("ok") { c.parse().ok() } else { None });
        let declared = match inner_cost {
            // entering the guard costs GUARD_COST (140) + the quote of the body… measured offsets are
            // determined by trial below when this one is wrong
            Some(c) => c + 140,
            None => self.rng.below(5000) + 1,
        };
        let mk = |cost: u64| call(36, vec![quote(int(cost as i128)), quote(int(ext)), quote(body.clone()), quote(atom(&[]))]);
        // adjust by trial: find the declared cost that makes the guard succeed (if any) within a small window
        let mut best = declared;
        if inner_cost.is_some() && ext < 2 {
            for delta in 0..400u64 {
                let c = declared.saturating_sub(200) + delta;
                let (r, _) = run_with("chia", 0, 0, None, &mk(c), &T::nil(), "");
                if r.starts_with("ok") {
                    best = c;
                    break;
                }
            }
        }
        if self.rng.chance(1, 6) {
            best = best.wrapping_add(self.rng.range(-2, 2) as u64);
        }
        if self.rng.chance(1, 5) {
            // cost / extension arguments in every non-canonical or out-of-range spelling that
            // `uint_atom` has a branch for (one-byte zero, padded, negative, too long)
            let odd = |rng: &mut Rng| -> T {
                quote(T::Atom(match rng.below(8) {
                    0 => vec![0x00],
                    1 => vec![0x00, 0x00],
                    2 => vec![0x00, 0x01],
                    3 => vec![0x00, 0x80],
                    4 => vec![0xff],
                    5 => vec![0x80, 0x00],
                    6 => vec![0x00, 0xff, 0xff, 0xff, 0xff],
                    _ => vec![0x01, 0, 0, 0, 0, 0, 0, 0, 0],
                }))
            };
            let cost_arg = if self.rng.chance(1, 2) { odd(self.rng) } else { quote(int(best as i128)) };
            let ext_arg = if self.rng.chance(1, 2) { odd(self.rng) } else { quote(int(ext)) };
            return call(36, vec![cost_arg, ext_arg, quote(body), quote(atom(&[]))]);
        }
        mk(best)
    }
}

/// mutate a program into a (probably) malformed one
pub fn mutate(rng: &mut Rng, t: &T) -> T {
    fn go(rng: &mut Rng, t: &T, p: u64) -> T {
        if rng.chance(1, p) {
            return match rng.below(8) {
                0 => T::Atom(vec![]),
                1 => {
                    let k = rng.below(5) as usize + 1;
                    T::Atom(rng.bytes(k))
                }
                2 => T::pair(t.clone(), t.clone()),
                3 => T::pair(T::Atom(vec![rng.below(70) as u8]), t.clone()),
                4 => match t {
                    T::Pair(l, _) => (**l).clone(),
                    _ => T::Atom(vec![0, 0, 2]),
                },
                5 => match t {
                    // improper list: non-nil terminator
                    T::Pair(l, r) => T::pair((**l).clone(), T::pair((**r).clone(), T::Atom(vec![rng.below(255) as u8 + 1]))),
                    _ => T::Atom(vec![0x80]),
                },
                6 => T::Atom(vec![0, rng.below(8) as u8 + 1]), // leading-zero path
                _ => T::Atom(vec![0x13, 0xd6, 0x1f, 0x00]),
            };
        }
        match t {
            T::Atom(_) => t.clone(),
            T::Pair(l, r) => T::pair(go(rng, l, p), go(rng, r, p)),
        }
    }
    let p = (t.nodes() as u64 / 2).max(3);
    go(rng, t, p)
}

pub const FLAG_BITS: [u32; 13] = [0x1, 0x2, 0x4, 0x8, 0x10, 0x20, 0x40, 0x100, 0x200, 0x400, 0x800, 0x1000, 0x2000];

pub fn random_flags(rng: &mut Rng) -> u32 {
    match rng.below(8) {
        0 | 1 => 0,
        2 => 0x2 | 0x4 | 0x200 | 0x1 | 0x10, // MEMPOOL_MODE
        3 => 0x2000,
        4 => *rng.pick(&FLAG_BITS),
        5 => 0x20,
        _ => {
            let mut f = 0;
            for b in FLAG_BITS {
                if rng.chance(1, 4) {
                    f |= b;
                }
            }
            f
        }
    }
}

pub fn random_program(rng: &mut Rng, size: usize, allow_softfork: bool) -> (T, T) {
    let n = rng.below(4) as usize;
    let tys: Vec<Ty> = (0..n).map(|_| *rng.pick(&[Ty::Int, Ty::Bytes, Ty::Bool, Ty::List])).collect();
    let crypto = rng.chance(1, 8);
    let mut g = Gen { rng, env_types: tys.clone(), budget: size, allow_softfork, crypto };
    let env_vals: Vec<T> = tys.iter().map(|t| g.constant(*t)).collect();
    let ty = *g.rng.pick(&[Ty::Int, Ty::Int, Ty::Bytes, Ty::Bool, Ty::List, Ty::Any]);
    let depth = g.rng.below(5) as usize + 1;
    let prog = g.expr(ty, depth);
    (prog, T::list(env_vals))
}

/// RUN stream: every program is run under a budget class chosen from its real cost
pub fn generate_run(rng: &mut Rng, n: usize, _tier: &str, dialects: &[&str], flag_mode: &str) -> Vec<String> {
    let mut out = Vec::new();
    let mut id = 0usize;
    // fixed corpus first
    let corpus: Vec<(T, T)> = vec![
        (quote(int(1)), T::nil()),
        (int(1), T::list(vec![int(5)])),
        (int(2), T::list(vec![int(5)])),
        (atom(&[0, 0, 2]), T::list(vec![int(5)])),
        (int(0x80), T::list((0..8).map(|i| int(i)).collect())),
        (call(16, vec![int(2), int(5)]), T::list(vec![int(3), int(4)])),
        (call(12, vec![quote(atom(&[0, 0x80])), quote(int(0)), quote(int(1))]), T::nil()),
    ];
    let mut progs: Vec<(T, T)> = corpus;
    progs.extend(huge_cost_corpus());
    for _ in 0..n {
        let (p, e) = random_program(rng, 25, true);
        if rng.chance(1, 5) {
            progs.push((mutate(rng, &p), e));
        } else {
            progs.push((p, e));
        }
    }
    for (p, e) in progs {
        let flags = match flag_mode {
            "default" => 0,
            "nonstrict-old" => random_flags(rng) & !(0x2 | 0x2000),
            _ => random_flags(rng),
        };
        let dialect = *rng.pick(dialects);
        // real cost under these flags with an unlimited budget
        let (r, _) = run_with(dialect, flags, 0, None, &p, &e, "");
        let cost: Option<u64> = if r.starts_with("ok") { r.split(' ').nth(1).and_then(|c| c.parse().ok()) } else { None };
        let budgets: Vec<u64> = match cost {
            Some(c) => {
                let mut v = vec![0, c];
                match rng.below(4) {
                    0 => v.push(c.saturating_sub(1)),
                    1 => v.push(c + 1),
                    2 => v.push(rng.below(c.max(1)) + 1),
                    _ => v.push(u64::MAX),
                }
                v
            }
            None => vec![0, rng.below(100000) + 1],
        };
        let ph = trees::to_hex(&p);
        let eh = trees::to_hex(&e);
        for b in budgets {
            out.push(format!("RUN r{} {} {:x} {} - {} {}", id, dialect, flags, b, ph, eh));
            id += 1;
        }
        if rng.chance(1, 6) {
            // re-encoded atoms (heap representation) — same outcome expected
            let natoms = count_atoms(&p) + count_atoms(&e);
            let tags: String = (0..natoms).map(|_| *rng.pick(&['H', 'H', 'H', '-', '-', '-', '-', 'E'])).collect();
            out.push(format!("RUN r{} {} {:x} 0 - {} {} {}", id, dialect, flags, ph, eh, tags));
            id += 1;
        }
        if rng.chance(1, 10) {
            let lim = rng.below(200) as usize + 2;
            out.push(format!("RUN r{} {} {:x} 0 {} {} {}", id, dialect, flags, lim, ph, eh));
            id += 1;
        }
    }
    out
}

pub fn count_atoms(t: &T) -> usize {
    match t {
        T::Atom(_) => 1,
        T::Pair(l, r) => count_atoms(l) + count_atoms(r),
    }
}

pub const OPS: [(&str, &[Ty]); 29] = [
    ("op_if", &[Ty::Bool, Ty::Any, Ty::Any]),
    ("op_cons", &[Ty::Any, Ty::Any]),
    ("op_first", &[Ty::List]),
    ("op_rest", &[Ty::List]),
    ("op_listp", &[Ty::Any]),
    ("op_raise", &[Ty::Any]),
    ("op_eq", &[Ty::Bytes, Ty::Bytes]),
    ("op_gr_bytes", &[Ty::Bytes, Ty::Bytes]),
    ("op_sha256", &[Ty::Bytes; 0]),
    ("op_substr", &[Ty::Bytes, Ty::Int, Ty::Int]),
    ("op_strlen", &[Ty::Bytes]),
    ("op_concat", &[Ty::Bytes; 0]),
    ("op_add", &[Ty::Int; 0]),
    ("op_subtract", &[Ty::Int; 0]),
    ("op_multiply", &[Ty::Int; 0]),
    ("op_div", &[Ty::Int, Ty::Int]),
    ("op_divmod", &[Ty::Int, Ty::Int]),
    ("op_gr", &[Ty::Int, Ty::Int]),
    ("op_ash", &[Ty::Int, Ty::Int]),
    ("op_lsh", &[Ty::Bytes, Ty::Int]),
    ("op_logand", &[Ty::Int; 0]),
    ("op_logior", &[Ty::Int; 0]),
    ("op_logxor", &[Ty::Int; 0]),
    ("op_lognot", &[Ty::Int]),
    ("op_not", &[Ty::Any]),
    ("op_any", &[Ty::Any; 0]),
    ("op_all", &[Ty::Any; 0]),
    ("op_modpow", &[Ty::Int, Ty::Int, Ty::Int]),
    ("op_mod", &[Ty::Int, Ty::Int]),
];

/// OP stream: direct operator calls with mostly well-typed argument lists
pub fn generate_op(rng: &mut Rng, n: usize, _tier: &str, only: Option<&[&str]>) -> Vec<String> {
    let mut out = Vec::new();
    for id in 0..n {
        let (name, sig) = loop {
            let c = *rng.pick(&OPS);
            if only.map(|o| o.contains(&c.0)).unwrap_or(true) {
                break c;
            }
        };
        let mut g = Gen { rng, env_types: vec![], budget: 0, allow_softfork: false, crypto: false };
        let mut args: Vec<T> = if sig.is_empty() {
            let n = g.rng.below(5) as usize;
            let ty = match name {
                "op_sha256" | "op_concat" => Ty::Bytes,
                "op_any" | "op_all" => Ty::Any,
                _ => Ty::Int,
            };
            (0..n).map(|_| g.constant(ty)).collect()
        } else {
            sig.iter().map(|t| g.constant(*t)).collect()
        };
        if name == "op_sha256" && rng.chance(1, 4) {
            args = vec![atom(&[1]), int(rng.below(45) as i128)];
        }
        if (name == "op_ash" || name == "op_lsh") && rng.chance(3, 4) {
            args[1] = int(rng.range(-300, 300) as i128);
        }
        if name == "op_substr" {
            args[1] = int(rng.range(-1, 6) as i128);
            args[2] = int(rng.range(-1, 8) as i128);
            if rng.chance(1, 3) {
                args.pop();
            }
        }
        if name == "op_modpow" && rng.chance(3, 4) {
            args[1] = int(rng.below(2000) as i128);
        }
        // wrong arity / pairs where atoms are required / improper terminator
        let mut list = T::list(args.clone());
        match rng.below(14) {
            0 => {
                args.push(random_int(rng));
                list = T::list(args);
            }
            1 => {
                if !args.is_empty() {
                    args.pop();
                }
                list = T::list(args);
            }
            2 => {
                if !args.is_empty() {
                    let i = rng.below(args.len() as u64) as usize;
                    args[i] = T::pair(int(1), int(2));
                }
                list = T::list(args);
            }
            3 => {
                // improper list
                let mut r = T::Atom(vec![rng.below(255) as u8 + 1]);
                for a in args.into_iter().rev() {
                    r = T::pair(a, r);
                }
                list = r;
            }
            _ => {}
        }
        let flags = random_flags(rng);
        let budget = match rng.below(5) {
            0 => rng.below(3000),
            1 => rng.below(200),
            _ => 100_000_000_000u64,
        };
        let natoms = count_atoms(&list);
        let tags: String = if rng.chance(1, 5) { (0..natoms).map(|_| *rng.pick(&['H', 'H', 'H', '-', '-', '-', '-', 'E'])).collect() } else { String::new() };
        out.push(format!("OP o{} {} {:x} {} {} {}", id, name, flags, budget, trees::to_hex(&list), tags).trim_end().to_string());
    }
    out
}

/// UNK stream: `op_unknown` with structured opcodes and argument sizes
pub fn generate_unknown(rng: &mut Rng, n: usize, tier: &str) -> Vec<String> {
    let mut out = Vec::new();
    let mut id = 0usize;
    let mut push = |op: &[u8], flags: u32, budget: u64, args: &T| {
        out.push(format!("UNK u{} {} {:x} {} {}", id, crate::util::hex_or_dash(op), flags, budget, trees::to_hex(args)));
        id += 1;
    };
    // every 1-byte opcode, a sample (quick) / all (thorough) of the 2-byte opcodes
    let small_args = T::list(vec![atom(&[1, 2, 3]), atom(&[]), atom(&[0xff; 40])]);
    for b in 0..=255u8 {
        push(&[b], 0, 1_000_000_000, &small_args);
        push(&[b], 0x2000, 1_000_000_000, &small_args);
    }
    let step = if tier == "thorough" { 1 } else { 37 };
    let mut x = 0u32;
    while x < 65536 {
        push(&[(x >> 8) as u8, x as u8], 0, 100_000_000_000, &small_args);
        x += step;
    }
    for _ in 0..n {
        let len = *rng.pick(&[0usize, 1, 2, 2, 3, 3, 4, 5, 5, 6]);
        let mut op = rng.bytes(len);
        if len >= 2 && rng.chance(1, 10) {
            op[0] = 0xff;
            op[1] = 0xff;
        }
        if len >= 2 && rng.chance(2, 3) {
            // small multipliers so that products stay near the 2^32 boundary
            for b in op.iter_mut().take(len - 1) {
                *b = 0;
            }
            let k = len - 2;
            op[k] = rng.below(8) as u8;
        }
        let nargs = rng.below(5) as usize;
        let args: Vec<T> = (0..nargs)
            .map(|_| {
                if rng.chance(1, 12) {
                    T::pair(int(1), int(2))
                } else {
                    let l = *rng.pick(&[0usize, 1, 3, 10, 100, 1000, 5000]);
                    T::Atom(rng.bytes(l))
                }
            })
            .collect();
        let flags = if rng.chance(1, 2) { 0 } else { 0x2000 } | if rng.chance(1, 10) { 0x2 } else { 0 };
        let budget = match rng.below(4) {
            0 => rng.below(2000),
            1 => rng.below(100000),
            _ => 1u64 << 40,
        };
        push(&op, flags, budget, &T::list(args));
    }
    out
}

/// RUN stream for C04: garbage-heavy programs (>= 1 KiB allocated inside GC-candidate calls), ENABLE_GC set
pub fn generate_run_gc(rng: &mut Rng, n: usize, _tier: &str) -> Vec<String> {
    let mut out = Vec::new();
    for id in 0..n {
        let blen = 400 + rng.below(500) as usize;
        let blob = T::Atom(rng.bytes(blen));
        let (inner, env) = random_program(rng, 15, true);
        let prog = match rng.below(5) {
            0 => call(2, vec![quote(call(5, vec![call(4, vec![inner, call(4, vec![call(14, vec![quote(blob.clone()), quote(blob.clone()), quote(blob)]), quote(atom(&[]))])])])), int(1)]),
            1 => call(13, vec![call(14, vec![quote(blob.clone()), quote(blob.clone()), quote(blob)])]),
            2 => call(11, vec![call(14, vec![quote(blob.clone()), quote(blob.clone()), quote(blob)]), inner]),
            3 => call(16, vec![call(13, vec![call(14, vec![quote(blob.clone()), quote(blob.clone()), quote(blob)])]), inner]),
            _ => inner,
        };
        let flags = random_flags(rng) | 0x20;
        let budget = if rng.chance(1, 4) { rng.below(20000) + 1 } else { 0 };
        out.push(format!("RUN g{} chia {:x} {} - {} {}", id, flags, budget, trees::to_hex(&prog), trees::to_hex(&env)));
    }
    out
}

/// RUN stream of bare path programs: path atoms of every bit length 0..40 (boundaries 7/8, 15/16, 23/24,
/// 31/32 emphasised), canonical and with redundant leading zero bytes, against environments that are
/// deep enough for the whole walk (built along the path) or one level too shallow
pub fn generate_paths(rng: &mut Rng, n: usize, _tier: &str) -> Vec<String> {
    let mut out = Vec::new();
    let mut id = 0usize;
    let mut cases: Vec<(u64, usize)> = vec![]; // (value, leading zero bytes)
    for bits in 0..=40u32 {
        for _ in 0..3 {
            let v = if bits == 0 { 0 } else { (1u64 << (bits - 1)) | (rng.next() & ((1u64 << (bits - 1)) - 1)) };
            cases.push((v, 0));
        }
        if bits > 0 {
            cases.push(((1u64 << bits) - 1, 0));
            cases.push((1u64 << (bits - 1), 0));
        }
    }
    for _ in 0..n {
        let bits = *rng.pick(&[6u32, 7, 8, 9, 14, 15, 16, 17, 22, 23, 24, 25, 26, 27, 30, 31, 32, 33, 3, 12, 20]);
        let v = (1u64 << (bits - 1)) | (rng.next() & ((1u64 << (bits - 1)) - 1));
        cases.push((v, if rng.chance(1, 4) { rng.below(3) as usize + 1 } else { 0 }));
    }
    for (v, zeros) in cases {
        // path atom: minimal positive encoding (a leading 0 when the top bit is set) + extra zeros
        let T::Atom(mut pb) = int(v as i128) else { unreachable!() };
        for _ in 0..zeros {
            pb.insert(0, 0);
        }
        // environment along the path: bits from the least significant one, the top set bit is the sentinel
        let nbits = 64 - v.leading_zeros() as usize;
        let steps = nbits.saturating_sub(1);
        let shallow = rng.chance(1, 8) && steps > 0;
        let depth = if shallow { steps - 1 } else { steps };
        let mut env = T::Atom(vec![0x5a]);
        for i in (0..depth).rev() {
            let bit = (v >> i) & 1 == 1;
            let other = T::Atom(vec![i as u8 | 0x80]);
            env = if bit { T::pair(other, env) } else { T::pair(env, other) };
        }
        let flags = if rng.chance(1, 3) { random_flags(rng) } else { 0 };
        // budgets around the real cost
        let (r, _) = run_with("chia", flags, 0, None, &T::Atom(pb.clone()), &env, "");
        let cost: Option<u64> = if r.starts_with("ok") { r.split(' ').nth(1).and_then(|c| c.parse().ok()) } else { None };
        let budgets: Vec<u64> = match cost {
            Some(c) => vec![0, c, c.saturating_sub(1), c.saturating_sub(4)],
            None => vec![0],
        };
        for b in budgets {
            out.push(format!("RUN p{} chia {:x} {} - {} {}", id, flags, b, crate::util::hex_or_dash(&trees::encode(&T::Atom(pb.clone()))), trees::to_hex(&env)));
            id += 1;
        }
    }
    out
}

/// OP stream at the operand-size limits of LIMITS / DISABLE_OP (256, 1024, 2048 bytes; 256 for
/// multiply factors and modpow operands, 1024 for products): every bignum operator x boundary sizes x
/// {LIMITS, DISABLE_OP, both, none} x {MALACHITE} x {NEW_COST_MODEL}
pub fn generate_op_limits(rng: &mut Rng, n: usize, _tier: &str) -> Vec<String> {
    let mut out = Vec::new();
    let mut id = 0usize;
    let sizes = [255usize, 256, 257, 1023, 1024, 1025, 2047, 2048, 2049];
    let small = [1usize, 2, 255, 256, 257, 1024, 1025];
    let mk = |rng: &mut Rng, len: usize| -> T {
        let mut b = rng.bytes(len);
        if len > 0 {
            // random sign, never a redundant leading byte by accident (that is a separate case below)
            b[0] = match rng.below(4) { 0 => 0x7f, 1 => 0x80, 2 => 0x00, _ => b[0] | 1 };
        }
        T::Atom(b)
    };
    let flag_sets: Vec<u32> = {
        let mut v = vec![];
        for base in [0u32, 0x40, 0x200, 0x240] {
            for mal in [0u32, 0x1000] {
                for nm in [0u32, 0x2000] {
                    v.push(base | mal | nm);
                }
            }
        }
        v
    };
    let mut push = |name: &str, flags: u32, args: Vec<T>| {
        out.push(format!("OP l{} {} {:x} {} {}", id, name, flags, 100_000_000_000u64, trees::to_hex(&T::list(args))));
        id += 1;
    };
    for name in ["op_div", "op_divmod", "op_mod"] {
        for &a0 in &sizes {
            for &a1 in &small {
                let x = mk(rng, a0);
                let y = mk(rng, a1);
                for &f in &flag_sets {
                    push(name, f, vec![x.clone(), y.clone()]);
                }
            }
        }
    }
    for &b in &[1usize, 255, 256, 257] {
        for &e in &[1usize, 2, 255, 256, 257] {
            for &m in &[1usize, 255, 256, 257] {
                if b + e + m > 600 {
                    continue; // keep modpow cheap
                }
                let (x, mut y, z) = (mk(rng, b), mk(rng, e), mk(rng, m));
                if let T::Atom(ref mut yb) = y {
                    if !yb.is_empty() {
                        yb[0] &= 0x7f; // non-negative exponent
                    }
                }
                for &f in &flag_sets {
                    push("op_modpow", f, vec![x.clone(), y.clone(), z.clone()]);
                }
            }
        }
    }
    for &a0 in &[255usize, 256, 257, 600, 1023, 1024, 1025] {
        for &a1 in &[1usize, 255, 256, 257, 500] {
            let x = mk(rng, a0);
            let y = mk(rng, a1);
            for &f in &flag_sets {
                push("op_multiply", f, vec![x.clone(), y.clone()]);
                push("op_multiply", f, vec![y.clone(), x.clone(), int(3)]);
            }
        }
    }
    // several error conditions at once (zero divisor / zero modulus, negative exponent, oversize operand,
    // wrong arity): which error wins must not depend on the build or the MALACHITE flag
    {
        let zeros: Vec<Vec<u8>> = vec![vec![], vec![0], vec![0, 0]];
        let exps: Vec<Vec<u8>> = vec![vec![], vec![0xff], vec![0x80, 0], vec![1], vec![0x00, 0xff]];
        let mods: Vec<Vec<u8>> = vec![vec![], vec![0], vec![0, 0], vec![0xff], vec![5], vec![0x00, 0x80]];
        let bases: Vec<Vec<u8>> = vec![vec![], vec![3], vec![0xff], vec![0x55; 257]];
        for b in &bases {
            for e in &exps {
                for m in &mods {
                    for &f in &flag_sets {
                        push("op_modpow", f, vec![T::Atom(b.clone()), T::Atom(e.clone()), T::Atom(m.clone())]);
                    }
                }
            }
        }
        for name in ["op_div", "op_divmod", "op_mod"] {
            for l in [1usize, 257, 1025, 2049] {
                for z in &zeros {
                    for &f in &flag_sets {
                        push(name, f, vec![T::Atom(vec![0x7f; l]), T::Atom(z.clone())]);
                        push(name, f, vec![T::Atom(z.clone()), T::Atom(vec![0x7f; l])]);
                    }
                }
            }
        }
    }
    for _ in 0..n {
        // random picks with redundant leading sign bytes at the boundaries
        let name = *rng.pick(&["op_div", "op_divmod", "op_mod", "op_multiply"]);
        let l0 = *rng.pick(&sizes);
        let mut b = vec![if rng.chance(1, 2) { 0u8 } else { 0xff }; 1];
        b.extend(rng.bytes(l0 - 1));
        let l1 = *rng.pick(&small);
        let y = mk(rng, l1);
        let fl = *rng.pick(&flag_sets);
        push(name, fl, vec![T::Atom(b), y]);
    }
    out
}

/// RUN stream: softfork guards whose cost and extension arguments take every spelling `uint_atom`
/// distinguishes (canonical, one-byte zero, padded, negative, too long), under the flag sets that
/// change how they are parsed
pub fn generate_run_softfork_args(_rng: &mut Rng, _n: usize, _tier: &str) -> Vec<String> {
    let spellings: Vec<Vec<u8>> = vec![
        vec![], vec![0x00], vec![0x00, 0x00], vec![0x00, 0x01], vec![0x00, 0x80], vec![0x01], vec![0x02], vec![0x7f], vec![0x80],
        vec![0xff], vec![0x80, 0x00], vec![0x00, 0xc8], vec![0x00, 0xff, 0xff, 0xff, 0xff], vec![0x00, 0xff, 0xff, 0xff, 0xff, 0xff, 0xff, 0xff, 0xff],
        vec![0x01, 0, 0, 0, 0, 0, 0, 0, 0], vec![0x00, 0x00, 0xc8],
        // one byte longer than the integer type, with the sign byte in front: must not be accepted by wrapping
        vec![0x00, 0x80, 0, 0, 0, 0, 0, 0, 0x00, 0xa1], vec![0x00, 0x80, 0, 0, 0, 0, 0, 0, 0x00, 0xc8], vec![0x00, 0xff, 0, 0, 0, 0, 0, 0, 0x00, 0xb5],
        vec![0x00, 0x80, 0x00, 0x00, 0x00, 0x00], vec![0x00, 0x80, 0x00, 0x00, 0x00, 0x01],
    ];
    let costs: Vec<Vec<u8>> = vec![vec![0x00, 0xc8], vec![0x00, 0xa1], vec![0x00, 0xb5]];
    let mut out = vec![];
    let mut id = 0;
    let body = quote(int(42));
    for flags in [0u32, 0x1, 0x2, 0x3, 0x10, 0x217, 0x2000, 0x2001, 0x2003, 0x100, 0x101, 0x2100] {
        for c in spellings.iter().chain(costs.iter()) {
            for e in &spellings {
                let p = call(36, vec![quote(T::Atom(c.clone())), quote(T::Atom(e.clone())), quote(body.clone()), quote(atom(&[]))]);
                out.push(format!("RUN k{} chia {:x} 0 - {} 80", id, flags, trees::to_hex(&p)));
                id += 1;
            }
        }
    }
    out
}

/// programs whose cost is near 2^63 and 2^64 (a softfork guard with an unknown extension charges its
/// declared cost without running anything): budget 0 must still mean "unlimited", and the budget
/// comparisons must not be done in a narrower or signed type
pub fn huge_cost_corpus() -> Vec<(T, T)> {
    let mut out = vec![];
    for declared in [(1u128 << 63) - 200, (1 << 63) - 81, 1 << 63, (1 << 63) + 1000, (1 << 64) - 1000, (1 << 64) - 1, (1 << 64) - 21, (1 << 62) + 7, (1 << 32) + 5] {
        let mut b = declared.to_be_bytes().to_vec();
        while b.len() > 1 && b[0] == 0 && b[1] & 0x80 == 0 {
            b.remove(0);
        }
        for ext in [9i128, 2] {
            out.push((call(36, vec![quote(T::Atom(b.clone())), quote(int(ext)), quote(int(0)), quote(int(0))]), T::nil()));
        }
        // wrong argument count: in lenient mode the declared cost is charged and nil returned
        out.push((call(36, vec![quote(T::Atom(b.clone()))]), T::nil()));
    }
    out
}

/// a bare path program of a boundary bit length with an environment deep enough along the path
pub fn random_path_program(rng: &mut Rng) -> (T, T) {
    let bits = *rng.pick(&[6u32, 7, 8, 9, 14, 15, 16, 17, 22, 23, 24, 24, 24, 25, 26, 27, 30, 31, 32, 33, 3, 12, 20]);
    let v = (1u64 << (bits - 1)) | (rng.next() & ((1u64 << (bits - 1)) - 1));
    let steps = bits as usize - 1;
    let mut env = T::Atom(vec![0x5a]);
    for i in (0..steps).rev() {
        let bit = (v >> i) & 1 == 1;
        let other = T::Atom(vec![i as u8 | 0x80]);
        env = if bit { T::pair(other, env) } else { T::pair(env, other) };
    }
    (int(v as i128), env)
}

/// OP stream for the small-integer fast paths of + - * (and the comparison / bit operators that have
/// one): operand values at every byte boundary, so that running sums and products carry into a new
/// byte, both cost models
pub fn generate_op_fastpath(rng: &mut Rng, n: usize, _tier: &str) -> Vec<String> {
    let vals: Vec<i128> = vec![0, 1, -1, 0x7f, 0x80, -0x80, -0x81, 0xff, 0x100, 0x7fff, 0x8000, -0x8000, 0xffff, 0x10000, 0x7fffff, 0x800000, 0xffffff,
                               0x1000000, 0x3ffffff, 0x4000000, -0x3ffffff, 0x7fffffff, 0x80000000, 0xffffffff];
    let mut out = vec![];
    let mut id = 0;
    let mut push = |name: &str, flags: u32, args: Vec<T>| {
        out.push(format!("OP f{} {} {:x} {} {}", id, name, flags, 100_000_000_000u64, trees::to_hex(&T::list(args))));
        id += 1;
    };
    for name in ["op_add", "op_subtract", "op_multiply"] {
        for flags in [0u32, 0x2000] {
            for a in &vals {
                for b in &vals {
                    push(name, flags, vec![int(*a), int(*b)]);
                }
            }
            for _ in 0..n.max(20) {
                let k = rng.below(5) as usize + 3;
                let args: Vec<T> = (0..k).map(|_| int(*rng.pick(&vals))).collect();
                push(name, flags, args);
            }
            // many copies of the largest inline value: the accumulator outgrows every operand
            push(name, flags, vec![int(0x3ffffff); 70]);
        }
    }
    // the same values with redundant sign-extension bytes (an atom longer than its value needs): length-based
    // shortcuts must not replace value-based decisions
    let padded = |v: i128, k: usize| -> T {
        let T::Atom(mut b) = int(v) else { unreachable!() };
        let fill = if v < 0 { 0xff } else { 0x00 };
        if b.is_empty() {
            b = vec![0; k.max(1)];
        } else {
            for _ in 0..k {
                b.insert(0, fill);
            }
        }
        T::Atom(b)
    };
    for name in ["op_div", "op_divmod", "op_mod", "op_add", "op_subtract", "op_multiply", "op_gr", "op_logand", "op_logior", "op_logxor"] {
        for flags in [0u32, 0x2000, 0x1000, 0x3000] {
            for (a, b) in [(100i128, 7i128), (-100, 7), (100, -7), (7, 100), (-7, 100), (0x7fff, 0x80), (0xffff, 1), (-1, 1), (0, 5), (255, 255), (256, -256)] {
                for (ka, kb) in [(0usize, 1usize), (0, 2), (1, 0), (2, 0), (1, 3)] {
                    push(name, flags, vec![padded(a, ka), padded(b, kb)]);
                }
            }
        }
    }
    // every atom representation in every argument position: an empty / zero / padded / small / large atom held
    // as a substring view ('E') or concat result ('H') of a heap atom, where the other arguments are plain.
    // Operators special-case "empty" and "small" by representation; the value must not depend on it.
    {
        let reprs: Vec<T> = vec![atom(&[]), atom(&[0]), atom(&[5]), atom(&[0, 5]), atom(&[0xfb]), atom(&[0xff, 0xfb]), atom(&[0, 0x80]),
                                 atom(&[1, 2, 3, 4, 5, 6]), atom(&[0x80, 0, 0, 0, 0, 1])];
        for name in ["op_add", "op_subtract", "op_multiply", "op_div", "op_divmod", "op_mod", "op_gr", "op_gr_bytes", "op_eq", "op_logand",
                     "op_logior", "op_logxor", "op_concat", "op_sha256", "op_any", "op_all", "op_ash", "op_lsh", "op_lognot", "op_not", "op_strlen", "op_if"] {
            let arities: &[usize] = match name {
                "op_if" => &[3],
                "op_lognot" | "op_not" | "op_strlen" => &[1],
                "op_div" | "op_divmod" | "op_mod" | "op_gr" | "op_gr_bytes" | "op_eq" | "op_ash" | "op_lsh" => &[2],
                _ => &[1, 2, 3],
            };
            for flags in [0u32, 0x2000, 0x1000, 0x3000] {
                for &k in arities {
                    for pos in 0..k {
                        for r in &reprs {
                            for tag in ['E', 'H'] {
                                if tag == 'H' && matches!(r, T::Atom(b) if b.is_empty()) {
                                    continue;
                                }
                                for other in [int(5), int(-7)] {
                                    let args: Vec<T> = (0..k).map(|i| if i == pos { r.clone() } else { other.clone() }).collect();
                                    let tags: String = (0..k).map(|i| if i == pos { tag } else { '-' }).collect();
                                    out.push(format!("OP f{} {} {:x} {} {} {}-", id, name, flags, 100_000_000_000u64, trees::to_hex(&T::list(args)), tags));
                                    id += 1;
                                }
                            }
                        }
                    }
                }
            }
        }
    }
    let mut push = |name: &str, flags: u32, args: Vec<T>| {
        out.push(format!("OP f{} {} {:x} {} {}", id, name, flags, 100_000_000_000u64, trees::to_hex(&T::list(args))));
        id += 1;
    };
    // results at the machine-word boundaries (a quotient, remainder or power that is exactly 2^31, 2^32,
    // 2^63, 2^64 or next to them, of either sign): result allocation has word-sized fast paths of its own
    {
        let mut words: Vec<i128> = vec![];
        for k in [7u32, 8, 15, 16, 25, 26, 31, 32, 63, 64, 65] {
            for d in [-1i128, 0, 1] {
                words.push((1i128 << k) + d);
                words.push(-((1i128 << k) + d));
            }
        }
        for flags in [0u32, 0x1000, 0x2000, 0x3000] {
            for &v in &words {
                for d in [3i128, -3, 255] {
                    push("op_div", flags, vec![int(v * d), int(d)]);
                    push("op_divmod", flags, vec![int(v * d + d.signum()), int(d)]);
                }
                let m = v.abs() + 7;
                push("op_mod", flags, vec![int(v), int(if v < 0 { -m } else { m })]);
                push("op_divmod", flags, vec![int(v), int(if v < 0 { -m } else { m })]);
                push("op_modpow", flags, vec![int(v), int(1), int(if v < 0 { -m } else { m })]);
                push("op_multiply", flags, vec![int(v), int(1)]);
                push("op_add", flags, vec![int(v - 1), int(1)]);
                push("op_subtract", flags, vec![int(v + 1), int(1)]);
                push("op_lognot", flags, vec![int(-v - 1)]);
                push("op_ash", flags, vec![int(v * 2), int(-1)]);
            }
        }
    }
    // shifts that move out all, all but one, or all but eight of the operand's bits, for operands with the
    // top bit set and clear (ash is signed, lsh is not: their "everything shifted out" thresholds differ)
    for name in ["op_ash", "op_lsh"] {
        for flags in [0u32, 0x2000] {
            for len in [1usize, 2, 4, 8, 9, 16, 17] {
                for first in [0x80u8, 0x7f, 0xff, 0x01, 0x40] {
                    for fill in [0x00u8, 0xff] {
                        let mut b = vec![fill; len];
                        b[0] = first;
                        let bits = 8 * len as i128;
                        for d in [-9i128, -8, -7, -2, -1, 0, 1] {
                            for sign in [-1i128, 1] {
                                if sign == 1 && bits + d > 40 {
                                    continue;
                                }
                                push(name, flags, vec![T::Atom(b.clone()), int(sign * (bits + d))]);
                            }
                        }
                    }
                }
            }
        }
    }
    for name in ["op_gr", "op_logand", "op_logior", "op_logxor", "op_lognot", "op_ash", "op_lsh", "op_div", "op_divmod", "op_mod"] {
        for flags in [0u32, 0x2000] {
            for _ in 0..n.max(20) {
                let a = *rng.pick(&vals);
                let mut b = *rng.pick(&vals);
                if (name == "op_ash" || name == "op_lsh") && b.abs() > 0x100 {
                    b = b.signum() * 9;
                }
                let args = if name == "op_lognot" { vec![int(a)] } else { vec![int(a), int(b)] };
                push(name, flags, args);
            }
        }
    }
    out
}

/// RUN stream: every unary / table-driven operator on every value 0..=300 and around the powers of two
/// (precomputed tables, fast paths and range checks are indexed by small values: each index is hit),
/// and the tree operators on a list of all of them
pub fn generate_run_small_values(_rng: &mut Rng, _n: usize, _tier: &str) -> Vec<String> {
    let mut out = vec![];
    let mut id = 0;
    let mut vals: Vec<i128> = (0..=300).collect();
    for k in [15u32, 16, 23, 24, 25, 26, 31, 32] {
        for d in [-1i128, 0, 1] {
            vals.push((1i128 << k) + d);
        }
    }
    vals.extend([-1, -128, -129, -32768]);
    let flag_sets = [0x400u32, 0x2400];
    for &v in &vals {
        for &f in &flag_sets {
            for prog in [
                call(63, vec![quote(int(v))]),                        // sha256tree of the atom
                call(11, vec![quote(int(v))]),                        // sha256 (precomputed one-byte hashes)
                call(11, vec![quote(atom(&[1])), quote(int(v))]),     // sha256 1 v : the tree-hash leaf pattern
                call(27, vec![quote(int(v))]),                        // lognot
                call(13, vec![quote(int(v))]),                        // strlen
                call(30, vec![quote(int(v))]),                        // pubkey_for_exp
                int(v),                                               // as a path into the environment
            ] {
                out.push(format!("RUN v{} chia {:x} 0 - {} {}", id, f, trees::to_hex(&prog), "ff8180ff8181ff818280"));
                id += 1;
            }
        }
    }
    // every shape of the operator position: atom, one-element list of an atom (the ((X) . args) form), of a
    // pair, of a list, longer / improper / empty inner lists, nested forms — applied to every shape of the
    // operand list; each is an error or a value, never a panic, in both dialects
    {
        let a = |b: &[u8]| T::Atom(b.to_vec());
        let heads: Vec<T> = vec![
            a(&[16]), a(&[]), a(&[1]), a(&[2]), a(&[0xff, 0xff]),
            T::list(vec![a(&[16])]), T::list(vec![a(&[])]), T::list(vec![a(&[1])]), T::list(vec![a(&[0x80, 0, 0, 1])]),
            T::list(vec![T::pair(a(&[1]), a(&[2]))]), T::list(vec![T::list(vec![a(&[16]), a(&[1]), a(&[2])])]),
            T::list(vec![T::list(vec![a(&[16])])]), T::list(vec![T::pair(T::nil(), T::nil())]),
            T::pair(a(&[16]), a(&[5])), T::pair(T::pair(a(&[1]), a(&[2])), a(&[5])), T::list(vec![a(&[16]), a(&[17])]),
            T::list(vec![T::pair(a(&[1]), a(&[2])), a(&[3])]), T::pair(T::nil(), T::nil()),
        ];
        let tails: Vec<T> = vec![T::nil(), T::list(vec![a(&[3])]), T::list(vec![a(&[1]), a(&[1])]), a(&[3]), T::pair(a(&[1]), a(&[3])),
                                 T::list(vec![T::pair(a(&[1]), a(&[7])), T::pair(a(&[1]), a(&[8]))])];
        for h in &heads {
            for t in &tails {
                for dialect in ["chia", "runtime"] {
                    for &f in &[0u32, 0x2400] {
                        out.push(format!("RUN v{} {} {:x} 0 - {} {}", id, dialect, f, trees::to_hex(&T::pair(h.clone(), t.clone())), "ff8180ff8181ff818280"));
                        id += 1;
                    }
                }
            }
        }
    }
    // the tree operator on one tree holding all small values (inline) and the same values as 2-byte atoms
    let all = T::list(vals.iter().filter(|v| **v >= 0 && **v <= 300).map(|v| int(*v)).collect());
    for &f in &flag_sets {
        out.push(format!("RUN v{} chia {:x} 0 - {} {}", id, f, trees::to_hex(&call(63, vec![int(1)])), trees::to_hex(&all)));
        id += 1;
    }
    out
}
