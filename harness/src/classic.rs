//! C15 / C16 / C29: classic serialization.
use crate::rng::Rng;
use crate::trees::{self, T};
use crate::util::*;
use clvmr::allocator::Allocator;
use clvmr::serde::{
    is_canonical_serialization, node_from_stream, node_to_bytes, node_to_bytes_limit, parse_triples, serialized_length,
    serialized_length_atom, serialized_length_from_bytes_trusted, tree_hash_from_stream, ObjectCache, ParsedTriple,
};
use std::io::Cursor;

pub fn run_ser(args: &[&str]) -> String {
    // SER classic <limit|-> <tree>
    let t = trees::from_hex(args[2]).unwrap();
    let mut a = Allocator::new();
    let n = trees::build(&mut a, &t).unwrap();
    let r = if args[1] == "-" { node_to_bytes(&a, n) } else { node_to_bytes_limit(&a, n, args[1].parse().unwrap()) };
    match r {
        Ok(b) => format!("ok {}", hex::encode(b)),
        Err(e) => fmt_err(&e),
    }
}

pub fn run_de(args: &[&str]) -> String {
    let b = parse_hex(args[1]).unwrap();
    match args[0] {
        "classic" => {
            let mut a = Allocator::new();
            let mut c = Cursor::new(&b[..]);
            match node_from_stream(&mut a, &mut c) {
                Ok(n) => format!("ok {} {}", trees::to_hex(&trees::from_node(&a, n)), c.position()),
                Err(e) => fmt_err(&e),
            }
        }
        "lent" => match serialized_length_from_bytes_trusted(&b) {
            Ok(n) => format!("ok {}", n),
            Err(e) => fmt_err(&e),
        },
        "canon" => format!("ok {}", is_canonical_serialization(&b)),
        _ => "bad-request".into(),
    }
}

pub fn run_len(args: &[&str]) -> String {
    match args[0] {
        "atom" => format!("ok {}", serialized_length_atom(&parse_hex(args[1]).unwrap())),
        "cache" => {
            let t = trees::from_hex(args[1]).unwrap();
            let mut a = Allocator::new();
            let n = trees::build(&mut a, &t).unwrap();
            let mut c = ObjectCache::new(serialized_length);
            format!("ok {}", c.get_or_calculate(&a, &n, None).unwrap())
        }
        _ => "bad-request".into(),
    }
}

/// sink that keeps only the first bytes written and counts the rest (no page of a huge atom is touched)
struct HeadSink {
    head: Vec<u8>,
    total: u64,
}
impl std::io::Write for HeadSink {
    fn write(&mut self, buf: &[u8]) -> std::io::Result<usize> {
        if self.head.len() < 8 {
            let k = (8 - self.head.len()).min(buf.len());
            self.head.extend_from_slice(&buf[..k]);
        }
        self.total += buf.len() as u64;
        Ok(buf.len())
    }
    fn flush(&mut self) -> std::io::Result<()> {
        Ok(())
    }
}

/// PFX <len> <first-byte-hex>: prefix written by write_atom for an atom of that length
pub fn run_pfx(args: &[&str]) -> String {
    let n: usize = args[0].parse().unwrap();
    let first = u8::from_str_radix(args[1], 16).unwrap();
    let mut buf = vec![0u8; n];
    if n > 0 {
        buf[0] = first;
    }
    let mut s = HeadSink { head: vec![], total: 0 };
    match clvmr::serde::write_atom::write_atom(&mut s, &buf) {
        Ok(()) => {
            let plen = (s.total - n as u64) as usize;
            format!("ok {} {}", hex_or_dash(&s.head[..plen.min(s.head.len())]), s.total)
        }
        Err(e) => fmt_err(&e),
    }
}

fn boundary_lengths(tier: &str) -> Vec<usize> {
    let mut v = vec![0usize, 1, 2, 0x3e, 0x3f, 0x40, 0x41, 0x1fff, 0x2000, 0x2001];
    if tier == "thorough" {
        v.extend([0xfffff, 0x100000, 0x100001]);
    }
    v
}

pub fn generate(rng: &mut Rng, n: usize, tier: &str) -> Vec<String> {
    let mut out = Vec::new();
    let mut id = 0usize;
    let mut push = |k: &str, s: String| {
        out.push(format!("{} c{} {}", k, id, s));
        id += 1;
    };
    // --- prefix ladder at every boundary, O(1) on both sides (lazily mapped buffers)
    let mut lens: Vec<u64> = vec![0, 1, 2];
    for t in [0x40u64, 0x2000, 0x100000, 0x8000000, 0x400000000] {
        for d in [-1i64, 0, 1] {
            lens.push((t as i64 + d) as u64);
        }
    }
    let cap: u64 = if tier == "thorough" { u64::MAX } else { 0x8000001 };
    for l in lens {
        if l <= cap {
            for f in ["00", "7f", "80", "ff"] {
                push("PFX", format!("{} {}", l, f));
            }
        }
    }
    // --- exhaustive short byte strings through every decoder
    let maxlen = if tier == "thorough" { 3 } else { 2 };
    for len in 0..=maxlen {
        let total = 1u64 << (8 * len);
        for x in 0..total {
            let b: Vec<u8> = (0..len).rev().map(|i| (x >> (8 * i)) as u8).collect();
            let h = hex_or_dash(&b);
            push("DE", format!("classic {}", h));
            push("DE", format!("lent {}", h));
            push("DE", format!("canon {}", h));
            if len <= 2 {
                push("LEN", format!("atom {}", h));
            }
        }
    }
    // --- atoms at the length boundaries as real trees
    for l in boundary_lengths(tier) {
        for f in [0x00u8, 0x7f, 0x80] {
            let mut b = vec![0x55u8; l];
            if l > 0 {
                b[0] = f;
            }
            let t = T::Atom(b.clone());
            let h = trees::to_hex(&t);
            push("SER", format!("classic - {}", h));
            push("DE", format!("classic {}", h));
            push("DE", format!("canon {}", h));
            push("DE", format!("lent {}", h));
            push("LEN", format!("cache {}", h));
            push("LEN", format!("atom {}", hex_or_dash(&b)));
        }
    }
    for _ in 0..n {
        let t = trees::random_tree(rng, 40, 70);
        let enc = trees::encode(&t);
        let h = hex::encode(&enc);
        match rng.below(10) {
            0 | 1 => push("SER", format!("classic - {}", h)),
            2 | 3 => {
                // every interesting limit
                let l = match rng.below(4) {
                    0 => enc.len(),
                    1 => enc.len().saturating_sub(1),
                    2 => enc.len() + 1,
                    _ => rng.below(enc.len() as u64 + 2) as usize,
                };
                push("SER", format!("classic {} {}", l, h));
            }
            4 => push("LEN", format!("cache {}", h)),
            _ => {
                // valid, mutated, truncated or extended serializations through the decoders
                let mut b = enc.clone();
                match rng.below(6) {
                    0 => {}
                    1 => {
                        if !b.is_empty() {
                            let i = rng.below(b.len() as u64) as usize;
                            b[i] = rng.next() as u8;
                        }
                    }
                    2 => {
                        let k = rng.below(b.len() as u64 + 1) as usize;
                        b.truncate(k);
                    }
                    3 => {
                        let k = rng.below(3) as usize + 1;
                        b.extend(rng.bytes(k))
                    }
                    4 => {
                        // non-minimal length prefix in front of a short atom
                        let k = rng.below(5) as usize + 1;
                        let bl = rng.below(3) as usize;
                        let body = rng.bytes(bl);
                        let mut p = vec![0u8; k + 1];
                        p[0] = !(0xffu8 >> (k + 1)) ;
                        p[k] = body.len() as u8;
                        b = p;
                        b.extend(body);
                    }
                    _ => {
                        if !b.is_empty() {
                            let i = rng.below(b.len() as u64) as usize;
                            b.insert(i, *rng.pick(&[0xffu8, 0xfe, 0x80, 0xc0, 0xfc, 0xfd]));
                        }
                    }
                }
                let hb = hex_or_dash(&b);
                push("DE", format!("{} {}", rng.pick(&["classic", "lent", "canon"]), hb));
            }
        }
    }
    out
}

/// C15 / C16(part) / C29 on the implementation alone
pub fn oracle(rng: &mut Rng, n: usize, tier: &str) -> OracleReport {
    let mut rep = OracleReport::default();
    let mut seen = std::collections::HashSet::new();
    let mut cases: Vec<T> = Vec::new();
    for l in boundary_lengths(tier) {
        for f in [0u8, 0x7f, 0x80] {
            let mut b = vec![0xaau8; l];
            if l > 0 {
                b[0] = f;
            }
            cases.push(T::Atom(b));
        }
    }
    for _ in 0..n {
        cases.push(trees::random_tree(rng, 60, 100));
    }
    // serializations longer than the 2,000,000-byte default cap of node_to_bytes: an explicit limit above it
    // must be honoured as given
    cases.push(T::pair(T::Atom(vec![0x41; 2_000_000]), T::Atom(vec![5])));
    cases.push(T::Atom(vec![0x42; 2_000_001]));
    for t in cases {
        rep.evaluations += 1;
        let expect = trees::encode(&t);
        if seen.insert(expect.clone()) && t.nodes() > 1 {
            rep.nontrivial += 1;
        }
        rep.hit(&format!("nodes<={}", t.nodes().next_power_of_two()));
        let mut a = Allocator::new();
        let node = trees::build(&mut a, &t).unwrap();
        let big = expect.len() + 10;
        let ser = match node_to_bytes_limit(&a, node, big) {
            Ok(b) => b,
            Err(e) => {
                let hx = trees::to_hex(&t);
                let hx = if hx.len() > 200 { format!("<{} hex digits: {}…>", hx.len(), &hx[..48]) } else { hx };
                rep.fail("ser_total", format!("tree={} error {:?}", hx, err_kind(&e)));
                // the limit given is above the serialized length: also a failure of "a limit of at least the
                // length gives the unlimited serialization" (C29)
                rep.fail("limited_ser", format!("tree={} limit={} len={} got Err({:?})", hx, big, expect.len(), err_kind(&e)));
                continue;
            }
        };
        let th = if expect.len() < 300 { hex::encode(&expect) } else { format!("<{} bytes: {}…>", expect.len(), hex::encode(&expect[..16])) };
        rep.sample(format!("tree {}", th));
        if ser != expect {
            rep.fail("ser_format", format!("tree={} ser={}", th, hex::encode(&ser)));
        }
        // round trip
        let mut a2 = Allocator::new();
        let mut c = Cursor::new(&ser[..]);
        match node_from_stream(&mut a2, &mut c) {
            Ok(n2) if trees::from_node(&a2, n2) == t && c.position() as usize == ser.len() => {}
            other => rep.fail("de_ser", format!("tree={} decode={:?}", th, other.map(|_| "different tree or length").map_err(|e| err_kind(&e)))),
        }
        if !is_canonical_serialization(&ser) {
            rep.fail("ser_canonical", format!("tree={} is_canonical_serialization(ser)=false", th));
        }
        match serialized_length_from_bytes_trusted(&ser) {
            Ok(l) if l as usize == ser.len() => {}
            other => rep.fail("len_trusted", format!("tree={} got {:?} want {}", th, other.map_err(|e| err_kind(&e)), ser.len())),
        }
        match clvmr::serde::serialized_length_from_bytes(&ser) {
            Ok(l) if l as usize == ser.len() => {}
            other => rep.fail("len_untrusted", format!("tree={} got {:?} want {}", th, other.map_err(|e| err_kind(&e)), ser.len())),
        }
        let mut oc = ObjectCache::new(serialized_length);
        let cl = *oc.get_or_calculate(&a, &node, None).unwrap();
        if cl as usize != ser.len() {
            rep.fail("len_cache", format!("tree={} cache length {} want {}", th, cl, ser.len()));
        }
        // C29: every limit 0..=len+1 (sampled when long)
        let limits: Vec<usize> = if ser.len() <= 80 { (0..=ser.len() + 1).collect() } else {
            let mut v: Vec<usize> = (0..20).map(|_| rng.below(ser.len() as u64 + 2) as usize).collect();
            v.extend([0, 1, ser.len() - 1, ser.len(), ser.len() + 1]);
            v
        };
        for l in limits {
            match node_to_bytes_limit(&a, node, l) {
                Ok(b) if l >= ser.len() && b == ser => {}
                Err(clvmr::error::EvalErr::OutOfMemory) if l < ser.len() => {}
                other => rep.fail(
                    "limited_ser",
                    format!("tree={} limit={} len={} got {:?}", th, l, ser.len(), other.map(|b| hex::encode(b)).map_err(|e| err_kind(&e))),
                ),
            }
        }
        // … and the same for the back-reference serializer against its unlimited output
        if let Ok(br) = clvmr::serde::node_to_bytes_backrefs(&a, node) {
            let limits: Vec<usize> = if br.len() <= 80 { (0..=br.len() + 1).collect() } else {
                let mut v: Vec<usize> = (0..10).map(|_| rng.below(br.len() as u64 + 2) as usize).collect();
                v.extend([0, 1, br.len() - 1, br.len(), br.len() + 1]);
                v
            };
            for l in limits {
                match clvmr::serde::node_to_bytes_backrefs_limit(&a, node, l) {
                    Ok(b) if l >= br.len() && b == br => {}
                    Err(clvmr::error::EvalErr::OutOfMemory) if l < br.len() => {}
                    other => rep.fail(
                        "limited_ser_br",
                        format!("tree={} limit={} len={} got {:?}", th, l, br.len(), other.map(|b| hex::encode(b)).map_err(|e| err_kind(&e))),
                    ),
                }
            }
        }
    }
    rep
}

/// big atoms at the upper prefix boundaries (128 MiB+): C15 canonical / length facts
pub fn oracle_big(_rng: &mut Rng, _n: usize, tier: &str) -> OracleReport {
    let mut rep = OracleReport::default();
    let mut sizes: Vec<usize> = vec![0x7ffffff, 0x8000000];
    if tier == "thorough" {
        sizes.extend([0x8000001, 0xfffffff, 0x10000000]);
    }
    for n in sizes {
        for first in [0x00u8, 0x80] {
            rep.evaluations += 1;
            rep.nontrivial += 1;
            rep.hit("big-atom");
            let mut body = vec![0u8; n];
            body[0] = first;
            let mut ser = Vec::with_capacity(n + 8);
            clvmr::serde::write_atom::write_atom(&mut ser, &body).unwrap();
            rep.sample(format!("atom of {} bytes, first byte {:02x}, prefix {}", n, first, hex::encode(&ser[..ser.len() - n])));
            if !is_canonical_serialization(&ser) {
                rep.fail("ser_canonical", format!("atom len={} first={:02x} prefix={} is_canonical_serialization(ser)=false", n, first, hex::encode(&ser[..ser.len() - n])));
            }
            match serialized_length_from_bytes_trusted(&ser) {
                Ok(l) if l as usize == ser.len() => {}
                other => rep.fail("len_trusted", format!("atom len={} got {:?}", n, other.map_err(|e| err_kind(&e)))),
            }
            if serialized_length_atom(&body) as usize != ser.len() {
                rep.fail("len_atom", format!("atom len={} serialized_length_atom={} want {}", n, serialized_length_atom(&body), ser.len()));
            }
        }
    }
    rep
}

// ---------------------------------------------------------------------------------------------
// C16: the classic decoders are total and agree (implementation alone)

/// sha256 tree hash of a harness tree, computed here with chia_sha2 (explicit stack)
fn ref_tree_hash(t: &T) -> [u8; 32] {
    enum Op<'a> {
        Visit(&'a T),
        Combine,
    }
    let mut ops = vec![Op::Visit(t)];
    let mut vals: Vec<[u8; 32]> = Vec::new();
    while let Some(op) = ops.pop() {
        match op {
            Op::Visit(T::Atom(b)) => {
                let mut h = chia_sha2::Sha256::new();
                h.update([1u8]);
                h.update(b);
                vals.push(h.finalize());
            }
            Op::Visit(T::Pair(l, r)) => {
                ops.push(Op::Combine);
                ops.push(Op::Visit(r));
                ops.push(Op::Visit(l));
            }
            Op::Combine => {
                let r = vals.pop().unwrap();
                let l = vals.pop().unwrap();
                let mut h = chia_sha2::Sha256::new();
                h.update([2u8]);
                h.update(l);
                h.update(r);
                vals.push(h.finalize());
            }
        }
    }
    vals.pop().unwrap()
}

/// the tree a triple list describes, read back from the buffer (None = the triples are inconsistent)
fn tree_of_triples(buf: &[u8], tr: &[ParsedTriple], idx: usize, depth: usize) -> Option<(T, u64, u64)> {
    if depth > 10_000 {
        return None;
    }
    match tr.get(idx)? {
        ParsedTriple::Atom { start, end, atom_offset } => {
            let s = *start as usize + *atom_offset as usize;
            let e = *end as usize;
            if s > e || e > buf.len() {
                return None;
            }
            Some((T::Atom(buf[s..e].to_vec()), *start, *end))
        }
        ParsedTriple::Pair { start, end, right_index } => {
            if buf.get(*start as usize) != Some(&0xff) {
                return None;
            }
            let (l, ls, le) = tree_of_triples(buf, tr, idx + 1, depth + 1)?;
            let (r, rs, re) = tree_of_triples(buf, tr, *right_index as usize, depth + 1)?;
            // children are laid out contiguously inside the parent's byte range
            if ls != *start + 1 || rs != le || re != *end {
                return None;
            }
            Some((T::pair(l, r), *start, *end))
        }
    }
}

/// all sub-trees in pre-order (the order of the triple list)
fn preorder(t: &T) -> Vec<&T> {
    let mut out = Vec::new();
    let mut st = vec![t];
    while let Some(t) = st.pop() {
        out.push(t);
        if let T::Pair(l, r) = t {
            st.push(r);
            st.push(l);
        }
    }
    out
}

fn check_decoders(rep: &mut OracleReport, b: &[u8]) {
    rep.evaluations += 1;
    let hx = if b.len() <= 200 { hex_or_dash(b) } else { format!("<{} bytes: {}…>", b.len(), hex::encode(&b[..24])) };
    use crate::alloctrack::measure;
    let mut peaks: Vec<(&str, usize)> = vec![];
    let de = std::panic::catch_unwind(|| {
        // the allocator pre-allocates its own heap: created outside the measured region
        let mut a = Allocator::new();
        let mut c = Cursor::new(b);
        let (r, peak) = measure(|| node_from_stream(&mut a, &mut c));
        (r.map(|n| (trees::from_node(&a, n), c.position())), peak)
    })
    .map(|(r, p)| {
        peaks.push(("node_from_stream", p));
        r
    });
    let th = std::panic::catch_unwind(|| {
        let mut c = Cursor::new(b);
        measure(|| tree_hash_from_stream(&mut c).map(|h| (h, c.position())))
    })
    .map(|(r, p)| {
        peaks.push(("tree_hash_from_stream", p));
        r
    });
    let tr1 = std::panic::catch_unwind(|| {
        let mut c = Cursor::new(b);
        measure(|| parse_triples(&mut c, true).map(|(r, h)| (r, h, c.position())))
    })
    .map(|(r, p)| {
        peaks.push(("parse_triples(true)", p));
        r
    });
    let tr0 = std::panic::catch_unwind(|| {
        let mut c = Cursor::new(b);
        measure(|| parse_triples(&mut c, false).map(|(r, h)| (r, h, c.position())))
    })
    .map(|(r, p)| {
        peaks.push(("parse_triples(false)", p));
        r
    });
    let canon = std::panic::catch_unwind(|| measure(|| is_canonical_serialization(b))).map(|(r, p)| {
        peaks.push(("is_canonical_serialization", p));
        r
    });
    let lent = std::panic::catch_unwind(|| measure(|| serialized_length_from_bytes_trusted(b).is_ok())).map(|(r, p)| {
        peaks.push(("serialized_length_from_bytes_trusted", p));
        r
    });
    // "without over-allocating": every buffer a decoder requests is bounded by what it has actually read.
    // The largest legitimate requests are the doubling result vectors (one 32-byte hash and one triple per
    // input byte at most) and the allocator's heap: 128 bytes per input byte plus a constant covers them;
    // a buffer sized by a *declared* atom length does not fit once the declaration exceeds that.
    for (who, peak) in &peaks {
        if *peak > 128 * b.len() + (1 << 16) {
            rep.fail("dec_alloc", format!("input={} ({} bytes) {} requested {} bytes in one allocation", hx, b.len(), who, peak));
        }
    }
    let (Ok(de), Ok(th), Ok(tr1), Ok(tr0), Ok(canon), Ok(_)) = (de, th, tr1, tr0, canon, lent) else {
        rep.fail("dec_total", format!("input={} a decoder panicked", hx));
        return;
    };
    rep.hit(if de.is_ok() { "accepted" } else { "rejected" });
    if de.is_ok() != th.is_ok() || de.is_ok() != tr1.is_ok() || de.is_ok() != tr0.is_ok() {
        rep.fail(
            "dec_same_inputs",
            format!(
                "input={} node_from_stream ok={} tree_hash_from_stream ok={} parse_triples(true) ok={} parse_triples(false) ok={}",
                hx,
                de.is_ok(),
                th.is_ok(),
                tr1.is_ok(),
                tr0.is_ok()
            ),
        );
        return;
    }
    let Ok((t, pos)) = de else {
        if canon && !b.contains(&0xfe) {
            rep.fail("canon_iff", format!("input={} rejected by node_from_stream but is_canonical_serialization=true", hx));
        }
        return;
    };
    if t.nodes() > 1 || b.len() > 2 {
        rep.nontrivial += 1;
    }
    if t.nodes() > 2 {
        rep.sample(format!("input {} decodes to {} nodes, {} bytes consumed", hx, t.nodes(), pos));
    }
    let (h, hpos) = th.unwrap();
    let (r1, h1, p1) = tr1.unwrap();
    let (r0, h0, p0) = tr0.unwrap();
    if hpos != pos || p1 != pos || p0 != pos {
        rep.fail("dec_same_consumed", format!("input={} consumed: de={} thash={} triples={} triples0={}", hx, pos, hpos, p1, p0));
    }
    if h != ref_tree_hash(&t) {
        rep.fail("dec_same_hash", format!("input={} tree_hash_from_stream={} recursive hash={}", hx, hex::encode(h), hex::encode(ref_tree_hash(&t))));
    }
    if r0 != r1 || h0.is_some() {
        rep.fail("dec_triples", format!("input={} parse_triples(false) differs from parse_triples(true) in the triples, or returned hashes", hx));
    }
    match tree_of_triples(b, &r1, 0, 0) {
        Some((tt, s, e)) if tt == t && s == 0 && e == pos && r1.len() == t.nodes() => {}
        other => rep.fail(
            "dec_triples",
            format!("input={} triples {:?} describe {:?}, decoded tree {}", hx, r1, other.map(|(tt, s, e)| (trees::to_hex(&tt), s, e)), trees::to_hex(&t)),
        ),
    }
    match h1 {
        Some(hs) => {
            let subs = preorder(&t);
            if hs.len() != subs.len() || hs.iter().zip(subs.iter()).any(|(h, s)| *h != ref_tree_hash(s)) {
                rep.fail("dec_same_hash", format!("input={} parse_triples hashes are not the pre-order sub-tree hashes", hx));
            }
        }
        None => rep.fail("dec_same_hash", format!("input={} parse_triples(true) returned no hashes", hx)),
    }
    // canonical <=> one tree, whole input, re-serialization reproduces it
    let mut a = Allocator::new();
    let node = trees::build(&mut a, &t).unwrap();
    let reser = node_to_bytes_limit(&a, node, b.len() + 16);
    let want = pos as usize == b.len() && reser.as_ref().map(|r| &r[..] == b).unwrap_or(false);
    if canon != want {
        rep.fail(
            "canon_iff",
            format!("input={} is_canonical_serialization={} but consumed={} of {} and reserialization={}", hx, canon, pos, b.len(), reser.map(hex::encode).unwrap_or_else(|e| err_kind(&e))),
        );
    }
}

/// mutated / truncated / extended / non-minimal inputs (same shapes as the `classic` stream)
fn mutated_input(rng: &mut Rng) -> Vec<u8> {
    let t = trees::random_tree(rng, 40, 70);
    let mut b = trees::encode(&t);
    match rng.below(8) {
        0 | 1 => {}
        2 => {
            if !b.is_empty() {
                let i = rng.below(b.len() as u64) as usize;
                b[i] = rng.next() as u8;
            }
        }
        3 => {
            let k = rng.below(b.len() as u64 + 1) as usize;
            b.truncate(k);
        }
        4 => {
            let k = rng.below(3) as usize + 1;
            b.extend(rng.bytes(k))
        }
        5 => {
            // non-minimal length prefix in front of a short atom, possibly inside a pair
            let k = rng.below(5) as usize + 1;
            let bl = rng.below(3) as usize;
            let body = rng.bytes(bl);
            let mut p = vec![0u8; k + 1];
            p[0] = !(0xffu8 >> (k + 1));
            p[k] = body.len() as u8;
            p.extend(body);
            if rng.chance(1, 2) {
                let mut q = vec![0xffu8];
                q.extend(&p);
                q.extend(&b);
                b = q;
            } else {
                b = p;
            }
        }
        6 => {
            if !b.is_empty() {
                let i = rng.below(b.len() as u64) as usize;
                b.insert(i, *rng.pick(&[0xffu8, 0xfe, 0x80, 0xc0, 0xfc, 0xfd]));
            }
        }
        _ => {
            let k = rng.below(12) as usize;
            b = rng.bytes(k);
        }
    }
    b
}

/// C16 on the implementation alone: exhaustive short inputs, boundary atoms, mutated serializations
pub fn oracle_decoders(rng: &mut Rng, n: usize, tier: &str) -> OracleReport {
    let mut rep = OracleReport::default();
    let maxlen = if tier == "thorough" { 3 } else { 2 };
    for len in 0..=maxlen {
        let total = 1u64 << (8 * len);
        for x in 0..total {
            let b: Vec<u8> = (0..len).rev().map(|i| (x >> (8 * i)) as u8).collect();
            check_decoders(&mut rep, &b);
        }
    }
    // three-byte inputs with a structured first byte (all prefix classes) in the quick tier
    if tier != "thorough" {
        for f in [0xffu8, 0xfe, 0xfd, 0xfc, 0xfb, 0xf8, 0xf0, 0xe0, 0xc0, 0xbf, 0x82, 0x81, 0x80] {
            for x in 0..=255u8 {
                for y in [0u8, 1, 0x7f, 0x80, 0x81, 0xff] {
                    check_decoders(&mut rep, &[f, x, y]);
                }
            }
        }
    }
    // size prefixes that declare far more than the input holds (payload absent, a few bytes, or 1000 bytes),
    // alone and as either child of a pair: rejected, and nothing sized by the declaration is requested
    for prefix in [&[0xe1u8, 0x00, 0x00][..], &[0xef, 0xff, 0xff], &[0xf0, 0x20, 0x00, 0x00], &[0xf4, 0x00, 0x00, 0x00], &[0xf7, 0xff, 0xff, 0xff], &[0xf8, 0x08, 0x00, 0x00, 0x00]] {
        for payload in [0usize, 5, 1000] {
            let mut atom = prefix.to_vec();
            atom.extend(std::iter::repeat(0x61).take(payload));
            check_decoders(&mut rep, &atom);
            let mut left = vec![0xff];
            left.extend_from_slice(&atom);
            check_decoders(&mut rep, &left);
            let mut right = vec![0xff, 0x01];
            right.extend_from_slice(&atom);
            check_decoders(&mut rep, &right);
        }
    }
    for l in boundary_lengths(tier) {
        for f in [0x00u8, 0x7f, 0x80] {
            let mut body = vec![0x55u8; l];
            if l > 0 {
                body[0] = f;
            }
            let enc = trees::encode(&T::Atom(body));
            check_decoders(&mut rep, &enc);
            if enc.len() > 1 {
                check_decoders(&mut rep, &enc[..enc.len() - 1]);
            }
            let mut e2 = enc.clone();
            e2.push(0);
            check_decoders(&mut rep, &e2);
        }
    }
    // over-long size prefixes with the complete payload: a k-byte prefix used for a length that a
    // shorter prefix can hold (just below each row of the minimum-size table, and far below it), and the
    // same prefix at its smallest legitimate length; alone and as one element of a pair
    let mins: [u64; 7] = [0, 1, 1 << 6, 1 << 13, 1 << 20, 1 << 27, 1 << 34];
    let cap: u64 = if tier == "thorough" { 1 << 27 } else { 1 << 21 };
    for k in 2..=6usize {
        let mut lens = vec![0u64, 1, 0x3f, mins[k - 1], mins[k] / 2 - 1, mins[k] / 2, mins[k] - 1, mins[k], mins[k] + 1];
        lens.push(mins[k - 1] + rng.below(mins[k] - mins[k - 1]));
        lens.sort();
        lens.dedup();
        for l in lens {
            if l > cap {
                continue;
            }
            let mut buf = overlong_prefix(k, l);
            let plen = buf.len();
            buf.resize(plen + l as usize, 0x5a);
            if l > 0 {
                buf[plen] = 0x01;
            }
            check_decoders(&mut rep, &buf);
            let mut pair = vec![0xffu8];
            pair.extend_from_slice(&buf);
            pair.push(0x80);
            check_decoders(&mut rep, &pair);
        }
    }
    // declared lengths of 2^32 and more whose low 32 bits are small (a truncating cast would accept them),
    // with and without that many bytes present
    for prefix in [vec![0xfcu8, 0x01, 0, 0, 0, 5], vec![0xfc, 0x01, 0, 0, 0, 0], vec![0xfc, 0x02, 0, 0, 0, 1], vec![0xfc, 0x03, 0xff, 0xff, 0xff, 0xff],
                   vec![0xf9, 0, 0, 0, 5], vec![0xfb, 0, 0, 0, 0], vec![0xfa, 0, 0, 0, 1], vec![0xfc, 0x00, 0x80, 0, 0, 3]] {
        for extra in [0usize, 1, 5, 6] {
            let mut b = prefix.clone();
            b.extend(std::iter::repeat(0x41).take(extra));
            check_decoders(&mut rep, &b);
            let mut p = vec![0xffu8];
            p.extend_from_slice(&b);
            p.push(0x80);
            check_decoders(&mut rep, &p);
        }
    }
    for _ in 0..n {
        let b = mutated_input(rng);
        check_decoders(&mut rep, &b);
    }
    rep
}

/// the k-byte size prefix (k = 2..6) carrying length `l`, whether or not k is the minimal choice
fn overlong_prefix(k: usize, l: u64) -> Vec<u8> {
    let lead: [u8; 7] = [0, 0x80, 0xc0, 0xe0, 0xf0, 0xf8, 0xfc];
    let mut out = vec![0u8; k];
    for i in 0..k {
        out[k - 1 - i] = (l >> (8 * i)) as u8;
    }
    out[0] |= lead[k];
    out
}
