#!/bin/sh
# Builds the framework from files on disk only (offline).
set -e
cd "$(dirname "$0")"
export CARGO_NET_OFFLINE=true
python3 tools/extract.py /repo lean
(cd lean && lake build ClvmModel ClvmProofs clvm_model)
cp /repo/Cargo.lock harness/Cargo.lock
(cd harness && CARGO_TARGET_DIR=/verif/.build/h-default cargo build --offline --bin h)
echo setup ok
