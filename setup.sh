#!/bin/sh
# Builds the framework from files on disk only (offline).  Every ./check rebuilds what it needs
# incrementally, so this script only warms the caches; a failure of one optional part must not
# prevent the others from being built.
cd "$(dirname "$0")"
export CARGO_NET_OFFLINE=true
python3 tools/extract.py /repo lean || exit 1
# the model driver is required by every check
(cd lean && lake build clvm_model) || exit 1
# property modules: build each on its own so that one broken module does not hide the others
for f in lean/ClvmProofs/Props/C*.lean; do
  m=$(basename "$f" .lean)
  (cd lean && lake build "ClvmProofs.Props.$m" >/dev/null 2>&1) || echo "setup: ClvmProofs.Props.$m does not build (its check will report it)"
done
cp /repo/Cargo.lock harness/Cargo.lock
(cd harness && CARGO_TARGET_DIR=/verif/.build/h-default cargo build --offline --bin h) || exit 1
# Python wheel (C26-C28): optional warm-up
if [ -x pyharness/build.sh ]; then
  sh pyharness/build.sh >/dev/null 2>&1 || echo "setup: wheel build failed (C26-C28 checks will rebuild and report)"
fi
echo setup ok
